#!/venv/bin/python
"""Re-run every kept seeded change against the checks that are recorded as catching it (regression matrix).
usage: tools/recheck_seeds.py [part k of n]   -> prints one line per seed: OK / REGRESSION / NOAPPLY"""
import glob, json, os, re, subprocess, sys
V = os.path.dirname(os.path.dirname(os.path.abspath(__file__)))
k, n = (int(sys.argv[1]), int(sys.argv[2])) if len(sys.argv) > 2 else (0, 1)
seeds = sorted(glob.glob(os.path.join(V, "seeded", "*", "meta.json")))
for i, m in enumerate(seeds):
    if i % n != k:
        continue
    d = os.path.dirname(m)
    meta = json.load(open(m))
    checks = [c for c, ok in meta.get("detected_by_quick_tier", {}).items() if ok]
    if not checks:
        print(os.path.basename(d), "SKIP (recorded as not caught)", flush=True)
        continue
    r = subprocess.run([os.path.join(V, "tools", "mutant.sh"), os.path.join(d, "patch.diff"), "quick", checks[0]],
                       stdout=subprocess.PIPE, stderr=subprocess.STDOUT, text=True)
    out = r.stdout
    if "PATCH-DOES-NOT-APPLY" in out:
        print(os.path.basename(d), "NOAPPLY", flush=True)
        continue
    mm = re.search(r"== (C\d+) rc=(\d+)", out)
    rc = int(mm.group(2)) if mm else -1
    print(os.path.basename(d), "OK" if rc == 1 else "REGRESSION rc=%d %s" % (rc, checks[0]), flush=True)
