#!/bin/sh
# tools/finalize.sh : regenerate evidence (quick tier, seed 0, against /repo), MANIFEST, the II.1 table of DESIGN.md; validate
cd "$(dirname "$0")/.."
rc_all=0
for c in C01 C02 C03 C04 C05 C06 C07 C08 C09 C10 C11 C12 C13 C14 C15 C16 C17 C18 C19 C20; do
  VERIF_SEED=0 ./run_check.py $c --tier quick --seed 0 > /tmp/final_$c.log 2>&1; rc=$?
  echo "$c rc=$rc $(grep -c KNOWN-FINDING /tmp/final_$c.log) known $(grep -E 'VIOLATION|INCONCLUSIVE' /tmp/final_$c.log | head -2 | cut -c1-160)"
  [ $rc -ne 0 ] && rc_all=1
done
/venv/bin/python tools/make_manifest.py >/dev/null
/venv/bin/python tools/design_table.py > /tmp/ii1_table.md
/venv/bin/python - <<'PY'
s = open('/verif/DESIGN.md').read()
a = s.index('<!-- II1-TABLE-START -->') + len('<!-- II1-TABLE-START -->\n')
b = s.index('<!-- II1-TABLE-END -->')
s = s[:a] + open('/tmp/ii1_table.md').read() + s[b:]
open('/verif/DESIGN.md', 'w').write(s)
PY
python3-vt - <<'PY'
import json, jsonschema, glob
m = json.load(open('/verif/MANIFEST.json')); jsonschema.validate(m, json.load(open('/root/.vp/MANIFEST.schema.json')))
sch = json.load(open('/root/.vp/EVIDENCE.schema.json'))
n = 0
for f in sorted(glob.glob('/verif/evidence/C*.json')):
    jsonschema.validate(json.load(open(f)), sch); n += 1
print("manifest valid, %d evidence files valid" % n)
PY
/venv/bin/python tools/baseline.py | tail -1
exit $rc_all
