#!/bin/sh
# tools/round3.sh <ID> [extra checks]: verify + test third-round seeds of one property (SEEDROOT, default /tmp/seed3)
root=${SEEDROOT:-/tmp/seed3}
id=$1; shift
for m in m1 m2 m3; do
  d=$root/out/$id/$m
  [ -f $d/patch.diff ] || continue
  v=$(tools/verify_seed.sh $d | sed 's/.*:: //' | cut -c1-120)
  echo "$d :: $v" >> $root/verify.log
  r=$(tools/mutant.sh $d/patch.diff quick $id "$@" | cut -c1-330)
  echo "## $id/$m verify[$v]"; echo "$r"
done
