#!/bin/sh
# tools/revert_seeds.sh : for every fix: commit in /repo create seeded/fix-<sha>/ with the reverse patch and record
# whether the listed checks report the original defect again (quick tier, scratch worktree)
cd "$(dirname "$0")/.."
while read sha checks; do
  d=seeded/fix-$sha; mkdir -p $d
  wt=$(mktemp -d /tmp/rv_wt.XXXXXX); rmdir $wt
  git -C /repo worktree add -q --detach $wt HEAD
  # reverse the fix on top of HEAD (3-way so that later commits touching neighbouring lines are kept)
  if git -C $wt revert --no-commit $sha >/dev/null 2>&1; then
     git -C $wt diff HEAD > $d/patch.diff
  else
     # a later fix touched the same lines: keep the hand-made reverse patch if there is one
     git -C /repo worktree remove --force $wt
     if [ -s $d/patch.diff ]; then echo "fix-$sha (hand-made reverse patch kept)"; wt=""; else echo "fix-$sha CONFLICT"; continue; fi
  fi
  [ -n "$wt" ] && git -C /repo worktree remove --force $wt
  out=$(tools/mutant.sh $d/patch.diff quick $checks 2>&1)
  subject=$(git -C /repo log -1 --format=%s $sha)
  /venv/bin/python - "$sha" "$subject" "$checks" "$out" > $d/meta.json <<'PY'
import json, re, sys
sha, subject, checks, out = sys.argv[1:5]
det = {}
for line in out.splitlines():
    m = re.match(r"== (C\d+) rc=(\d+) :: (.*)", line)
    if m:
        det[m.group(1)] = {"rc": int(m.group(2)), "first_report": m.group(3)[:300]}
print(json.dumps({"id": "fix-" + sha, "origin": "reverse patch of a fix: commit in /repo (the original, genuine defect)",
                  "fix_commit": sha, "fix_subject": subject, "properties": checks.split(),
                  "demonstration": "the listed check itself: ./tools/mutant.sh seeded/fix-%s/patch.diff quick %s (replay file named in the report)" % (sha, checks),
                  "needs_to_manifest": "see known_findings.txt 'fixed:' line and DESIGN.md II.3",
                  "detected_by_quick_tier": {k: v["rc"] == 1 for k, v in det.items()}, "reports": det}, indent=1))
PY
  echo "fix-$sha $(echo "$out" | grep -o 'C[0-9]* rc=[0-9]' | tr '\n' ' ')"
done <<'LIST'
efca982 C11 C01
8bc5d0f C04 C17
5d45f8d C04
78eb57f C07
2a4522c C09
662a020 C16
b0ce0d3 C16
d4bb8a3 C13 C01
e58b179 C01 C10
0620175 C12
d184d5d C13
4d0066a C07
f851927 C01
2793aad C02 C01
4fb5a5f C11
72b1b63 C15
2fd3255 C18
d2451f6 C18
a46d743 C13 C14
a1887f0 C02
58715e3 C01
50b17e8 C12
c4bdc93 C12
318b915 C20
3a4230f C11
80a8a29 C11
b33e5d2 C15
4285d0b C12
b2f388a C19
9df52d6 C05
7cc02bb C01
b420852 C13
9244933 C04
e2657c3 C04
a36e732 C03
d9b8bd6 C15
c102342 C03
32170f7 C07
076191e C01
e78a7a8 C08
1be5d5d C08
cf8d1d2 C01
0a9359e C04
b62f1cf C02
b91dce8 C04
cc1e1eb C14
17c395c C14
LIST
