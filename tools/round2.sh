#!/bin/sh
# tools/round2.sh <ID> [extra checks]: verify + test second-round seeds of one property
id=$1; shift
for m in m1 m2 m3; do
  d=/tmp/seed2/out/$id/$m
  [ -f $d/patch.diff ] || continue
  v=$(tools/verify_seed.sh $d | sed 's/.*:: //' | cut -c1-120)
  echo "$d :: $v" >> /tmp/seed2/verify.log
  r=$(tools/mutant.sh $d/patch.diff quick $id "$@" | cut -c1-230)
  echo "## $id/$m verify[$v]"; echo "$r"
done
