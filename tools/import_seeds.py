#!/venv/bin/python
"""Import verified seeded changes into /verif/seeded/<id>/ and record which checks catch them.
usage: tools/import_seeds.py <src root> <verify log> [<verify log> ...]"""
import json, os, re, shutil, subprocess, sys
from concurrent.futures import ThreadPoolExecutor
V = os.path.dirname(os.path.dirname(os.path.abspath(__file__)))
src = sys.argv[1]
SUFFIX = os.environ.get("SEED_SUFFIX", "")
ONLY = set(os.environ.get("SEED_ONLY", "").split()) if os.environ.get("SEED_ONLY") else None
ver = {}
for log in sys.argv[2:]:
    for line in open(log):
        m = re.match(r"(\S+) :: (.*)", line.strip())
        if m:
            ver[m.group(1)] = m.group(2)
EXTRA = {"C11/m3": ["C01"], "C03/m2": ["C17"], "C03/m3": ["C17"], "C10/m1": ["C02"], "C04/m1": ["C17"], "C01/m2": ["C02"]}
if SUFFIX.startswith("r9"):
    EXTRA = {"C05/m1": ["C16"], "C17/m1": ["C16"]}
elif SUFFIX.startswith("r8"):
    EXTRA = {"C04/m1": ["C15"], "C03/m1": ["C08"]}
elif SUFFIX.startswith("r7"):
    EXTRA = {"C07/m1": ["C18"], "C08/m2": ["C09"], "C11/m1": ["C12"], "C19/m1": ["C12"]}
elif SUFFIX.startswith("r6"):
    EXTRA = {"C01/m1": ["C13"], "C01/m2": ["C12"], "C05/m1": ["C18"], "C05/m3": ["C17"], "C08/m2": ["C09"], "C11/m1": ["C14"],
             "C11/m2": ["C01"], "C11/m3": ["C12"], "C15/m3": ["C09"], "C17/m1": ["C16"], "C18/m1": ["C07"], "C03/m2": ["C04"],
             "C10/m2": ["C19"]}
elif SUFFIX.startswith("r5"):
    EXTRA = {"C01/m2": ["C02"], "C03/m2": ["C08"], "C04/m2": ["C17"], "C04/m3": ["C17"], "C05/m2": ["C03"], "C09/m3": ["C08"],
             "C10/m1": ["C02"], "C11/m1": ["C01"], "C11/m2": ["C02", "C12"], "C13/m1": ["C19"], "C13/m2": ["C19"],
             "C15/m3": ["C06"], "C17/m3": ["C04"], "C18/m3": ["C07"], "C07/m1": ["C08"]}
elif SUFFIX.startswith("r4"):
    EXTRA = {"C01/m1": ["C19"], "C01/m2": ["C14"], "C03/m2": ["C08"], "C03/m3": ["C04"], "C11/m1": ["C19"], "C11/m2": ["C02"],
             "C11/m3": ["C08"], "C17/m2": ["C03"], "C17/m3": ["C16"], "C19/m2": ["C12"], "C05/m1": ["C16"], "C10/m2": ["C14"]}
elif SUFFIX.startswith("r3"):
    EXTRA = {"C13/m3": ["C01"], "C05/m3": ["C17", "C04"], "C06/m3": ["C15"], "C13/m2": ["C19"], "C11/m3": ["C01", "C02"],
             "C01/m1": ["C14"], "C11/m1": ["C20"], "C04/m1": ["C17"]}
elif SUFFIX:
    EXTRA = {"C05/m2": ["C16"], "C05/m3": ["C16"], "C07/m3": ["C18"], "C03/m2": ["C17"], "C03/m3": ["C17"], "C04/m1": ["C17"]}

def one(item):
    prop, m = item
    d = os.path.join(src, prop, m)
    v = ver.get(d, "")
    ok = "applies=yes" in v and "demo_clean_rc=0" in v and "demo_mutant_rc=0" not in v and "464 pass, 0 missing" in v
    if not ok:
        return (prop, m, "NOT-VERIFIED " + v)
    sid = "%s-%s%s" % (prop, SUFFIX, m)
    out = os.path.join(V, "seeded", sid)
    os.makedirs(out, exist_ok=True)
    shutil.copy(os.path.join(d, "patch.diff"), os.path.join(out, "patch.diff"))
    shutil.copy(os.path.join(d, "demo.py"), os.path.join(out, "demo.py"))
    meta = json.load(open(os.path.join(d, "meta.json")))
    checks = [prop] + EXTRA.get("%s/%s" % (prop, m), [])
    r = subprocess.run([os.path.join(V, "tools", "mutant.sh"), os.path.join(out, "patch.diff"), "quick"] + checks,
                       stdout=subprocess.PIPE, stderr=subprocess.STDOUT, text=True)
    det = {}
    for line in r.stdout.splitlines():
        mm = re.match(r"== (C\d+) rc=(\d+) :: (.*)", line)
        if mm:
            keys = re.findall(r"#\s*([^:\s][^ ]*?):\s", mm.group(3))
            det[mm.group(1)] = {"rc": int(mm.group(2)), "first_report": mm.group(3)[:300]}
    new = {"id": sid, "property": prop, "origin": "independent sub-agent (given only the property text and a scratch worktree)" + (", ninth round (eight properties, one change each, twelve-minute brief)" if SUFFIX.startswith("r9") else ", eighth round (the other ten properties; same brief as the seventh)" if SUFFIX.startswith("r8") else ", seventh round (ten properties; told which mechanisms the earlier rounds had used; half of the effort on behaviour of the unchanged tree)" if SUFFIX.startswith("r7") else ", sixth round (told which mechanisms the earlier rounds had used; asked for changes reachable from the command line and for behaviour of the unchanged tree that already breaks the property)" if SUFFIX.startswith("r6") else ", fifth round (told which mechanisms the earlier rounds had used; asked for changes reachable from the command line)" if SUFFIX.startswith("r5") else ", fourth round (told which mechanisms the earlier rounds had used)" if SUFFIX.startswith("r4") else ", third round (told which mechanisms the earlier rounds had used)" if SUFFIX.startswith("r3") else ", second round (told which mechanisms round one had used)" if SUFFIX else ""),
           "summary": meta.get("summary"), "needs_to_manifest": meta.get("needs"), "files": meta.get("files"),
           "verified_by_me": {"how": "tools/verify_seed.sh: scratch worktree of /repo HEAD, git apply, demo on clean and patched tree, pinned baseline with the patch",
                              "result": v},
           "agent_ran": meta.get("ran"),
           "detected_by_quick_tier": {k: (x["rc"] == 1) for k, x in det.items()},
           "reports": det}
    json.dump(new, open(os.path.join(out, "meta.json"), "w"), indent=1)
    return (prop, m, " ".join("%s=%s" % (k, "CAUGHT" if x["rc"] == 1 else "missed(rc=%d)" % x["rc"]) for k, x in det.items()))

items = []
for prop in sorted(os.listdir(src)):
    if re.match(r"C\d+$", prop) and (ONLY is None or prop in ONLY):
        for m in ("m1", "m2", "m3"):
            if os.path.exists(os.path.join(src, prop, m, "patch.diff")):
                items.append((prop, m))
with ThreadPoolExecutor(4) as ex:
    for r in ex.map(one, items):
        print(*r, flush=True)
