#!/bin/sh
# tools/verify_seed.sh <dir with patch.diff demo.py meta.json> : confirm a seeded change myself
#  (1) patch applies to /repo HEAD  (2) pinned baseline passes with it  (3) demo fails with it  (4) demo passes without it
d="$1"
wt=$(mktemp -d /tmp/vs_wt.XXXXXX); rmdir "$wt"
git -C /repo worktree add -q --detach "$wt" HEAD || exit 9
res="applies=no"
demo_clean=$(cd /tmp && PYTHONPATH="$wt" TQDM_DISABLE=1 timeout 300 /venv/bin/python "$d/demo.py" >/dev/null 2>&1; echo $?)
if git -C "$wt" apply "$d/patch.diff" 2>/dev/null || git -C "$wt" apply -3 "$d/patch.diff" 2>/dev/null; then
  res="applies=yes"
  demo_mut=$(cd /tmp && PYTHONPATH="$wt" TQDM_DISABLE=1 timeout 300 /venv/bin/python "$d/demo.py" >/dev/null 2>&1; echo $?)
  base=$(REPO_DIR="$wt" /venv/bin/python ${SEED_BASELINE:-/tmp/seed3/baseline.py} 2>&1 | grep -m1 baseline:)
  res="$res demo_clean_rc=$demo_clean demo_mutant_rc=$demo_mut $base"
fi
git -C /repo worktree remove --force "$wt"
echo "$d :: $res"
