#!/venv/bin/python
"""Run the repository's pinned test-suite (hooks/guard OFF) and compare with
/root/.vp/BASELINE.json: every stable_pass test must still pass.
exit 0 = baseline intact."""
import json, os, subprocess, sys, tempfile, xml.etree.ElementTree as ET

def main():
    base = json.load(open("/root/.vp/BASELINE.json"))
    want = set(base["stable_pass"])
    env = dict(os.environ)
    for k in ("POLYPLY_VERIF", "PVMON_ATTACH"):
        env.pop(k, None)
    env["TQDM_DISABLE"] = "1"
    with tempfile.TemporaryDirectory() as tmp:
        xml = os.path.join(tmp, "junit.xml")
        cmd = ["/venv/bin/python", "-m", "pytest", "-q", "-p", "no:cacheprovider",
               "--timeout=900", "--continue-on-collection-errors",
               "--junitxml=" + xml]
        proc = subprocess.run(cmd, cwd="/repo", env=env, stdout=subprocess.PIPE,
                              stderr=subprocess.STDOUT, text=True)
        passed = set()
        for tc in ET.parse(xml).getroot().iter("testcase"):
            bad = any(ch.tag in ("failure", "error", "skipped") for ch in tc)
            if not bad:
                passed.add(tc.get("classname") + "::" + tc.get("name"))
    missing = sorted(want - passed)
    print(f"baseline: {len(want)} pinned, {len(want & passed)} pass, {len(missing)} missing; "
          f"{len(passed - want)} additional tests pass")
    for m in missing[:40]:
        print("  NOT PASSING:", m)
    return 1 if missing else 0

if __name__ == "__main__":
    sys.exit(main())
