#!/venv/bin/python
"""Regenerate MANIFEST.json from the table below (only checks whose module exists are claimed)."""
import json, os, sys
V = os.path.dirname(os.path.dirname(os.path.abspath(__file__)))
T = {
 "C01": ("exploration", "reference-model differential: abstract-spec block-copy oracle vs written .itp (generated force fields and the shipped libraries as parsed); -mods differential; block exclusions kept",
         "Held on the generated force fields / residue graphs of each run (counts in evidence); the oracle is computed from the abstract spec, so the .ff/.itp parsers, MapToMolecule, ApplyLinks, ApplyModifications and the writer are all inside the checked path.",
         "vermouth writer canonicalisation (atom tuples compared up to reversal); generator bounds (<= 5 atoms per block quick, <= 8 residues)", "3 C01"),
 "C02": ("exploration", "reference-model differential: brute-force link matcher (sound + complete) vs written .itp and captured molecule, on generated link definitions and on the shipped libraries translated from their parsed form",
         "Every generated case is decided by an independent brute-force statement of the matching rule (injective residue assignment, induced subgraph, order table, unique atom match, non-edge/pattern vetoes, last-definition-wins); both unsound and missing applications are reported.",
         "own reading of the vermouth order table; generator sub-language listed in DESIGN C02", "3 C02"),
 "C03": ("exploration", "runtime monitor on gen_coords output: expected atom rows from the spec, NaN/inf watcher, box oracle",
         "Held on the systems/option sets generated per run.", ".gro fixed-width format is lossless for generated names", "3 C03"),
 "C04": ("exploration", "shadow of supplied coordinates at the engine boundary after every (natural or injected) failed attempt; input (.gro/.pdb, -c/-mc/-lig) vs output differential",
         "Held on generated splits given/centre-only/missing incl. injected failed attempts.", "3-decimal .gro rounding", "3 C04"),
 "C05": ("exploration", "online invariant at a hook: brute-force minimum-image geometry/force at every accepted placement, limits taken from the call",
         "Every accepted placement of every run is re-checked independently of the KD-tree.", "sizes from captured topology.volumes", "3 C05"),
 "C06": ("exploration", "Kabsch + chirality monitor on every back-mapped residue; adversarial optimiser angles",
         "Held on all residues back-mapped in the generated systems.", "atom names unique per residue", "3 C06"),
 "C07": ("exploration", "restraint predicates re-implemented from the build-file text, evaluated on final residue positions",
         "Held on generated satisfiable build files.", "only satisfiable build files are generated (unsatisfiable ones make the program retry forever)", "3 C07"),
 "C08": ("exploration", "metamorphic: independent include/conditional flattener; whitespace/comment law; instance independence",
         "Held on generated include trees.", "generator restrictions listed in DESIGN C08", "3 C08"),
 "C09": ("exploration", "reference resolver for bonded types per molecule instance; nonbond table laws",
         "Held on generated type tables (all 16 wildcard masks, both directions).", "combination rule itself not checked", "3 C09"),
 "C10": ("exploration", "recount of inter-residue atom edges vs logged missing-link warnings (generated, library and -dsdna inputs); gen_coords connectivity gate with and without start coordinates",
         "Held on generated force fields with links randomly withheld.", "residue-graph edges from the generated input", "3 C10"),
 "C11": ("exploration", "round trip: built molecule (captured at stage boundary) vs re-read file via Topology.from_gmx_topfile / MetaMolecule.from_itp; requested vs recovered residue graph for generated and library sequences",
         "Held on generated inputs incl. conditional sections and libraries.", "float fields compared after str/float round trip", "3 C11"),
 "C12": ("exploration", "reference sequence-graph builder vs all sequence readers and gen_seq",
         "Held on generated sequences/files/macros.", "quantifier restrictions of the statement (.txt single space etc.)", "3 C12"),
 "C13": ("exploration", "metamorphic differential on the real program: relabel/permute/reverse/history transforms",
         "Held on generated base cases x transforms.", "non-conflicting permutations only", "3 C13"),
 "C14": ("exploration", "all-pairs exclusion recount on the written .itp (generated mixed-distance polymers and library sequences)",
         "Held on generated mixed-exclusion polymers.", "bond graph = bonds + constraints + link-made bond edges", "3 C14"),
 "C15": ("exploration", "monitors on GenerateTemplates: isomorphism grouping, centring, GROMACS virtual-site formulas (nested and stacked sites), optimiser verdicts and the generator's own failure report rechecked, user templates/volumes",
         "Held on generated residue definitions.", "networkx is_isomorphic trusted", "3 C15"),
 "C16": ("exploration", "history vs executable model: dictionary model + view invariant on the real NonBondEngine",
         "Operation histories driven on the real engine and checked after every operation.", "brute-force minimum image force", "3 C16"),
 "C17": ("fault_enumeration", "scripted success/failure schedules at update_positions (exhaustive to a bound); prefix-closed trace invariant",
         "All 2^k step schedules x shapes x rewind depths enumerated; invariant checked at every intercepted call.", "real placements succeed in dilute boxes", "3 C17"),
 "C18": ("exploration", "selection semantics re-implemented from the statement vs node attributes after load_build_files / AnnotateLigands / split_residue",
         "Held on generated build files and option strings.", "", "3 C18"),
 "C19": ("exploration", "reference pairing/antiparallel oracle, involution law",
         "Held on generated DNA sequences.", "", "3 C19"),
 "C20": ("fault_enumeration", "failpoints at every statement of the three programs and every stage boundary; directory snapshots after the failed call and after the next flush of the deferred writer; SIGKILL of the command line programs",
         "Every LINE event of gen_params/gen_coords/gen_seq bodies and every stage entry/exit is a crash point; enumeration is measured.", "in-process exception models a crash; DeferredFileWriter().close() models process exit", "3 C20"),
}
checks, na = [], []
for pid, (level, tech, text, note, ref) in sorted(T.items()):
    if os.path.exists(os.path.join(V, "pvmon", "checks", pid + ".py")):
        checks.append({"property_id": pid,
                       "quick_cmd": "./run_check.py %s --tier quick" % pid,
                       "thorough_cmd": "./run_check.py %s --tier thorough" % pid,
                       "evidence_file": "/verif/evidence/%s.json" % pid,
                       "replay_cmd_template": "./run_check.py %s --replay {path}" % pid,
                       "engine": "pvmon",
                       "level_claimed": {"category": level, "text": text, "design_ref": "DESIGN.md section " + ref},
                       "level_note": note or "see DESIGN.md section 4",
                       "technique": "runtime monitoring: " + tech})
    else:
        na.append({"property_id": pid, "reason": "check not built yet in this snapshot (in progress; see DESIGN.md section 7)"})
m = {"version": 1,
     "setup_cmd": "./setup.sh",
     "hooks": {"guard": "POLYPLY_VERIF", "enable": "no in-repo hooks: monitors are attached from /verif by monkeypatching at import time (pvmon.attach); the guard name is reserved and unused",
               "baseline_off_cmd": "/venv/bin/python /verif/tools/baseline.py", "source_commits": [], "add_only": True},
     "engines": [{"name": "pvmon", "path": "/verif/pvmon", "serves_properties": [c["property_id"] for c in checks],
                  "kind_free_text": "runtime monitors, reference-model oracles, history checkers and fault injection attached to the real polyply code"}],
     "checks": checks,
     "not_applicable": na,
     "notes": "All checks: exit 0 held-on-observed, 1 VIOLATION, 2 INCONCLUSIVE (monitor not reached / watchdog). VERIF_SEED and VERIF_TIER are honoured. PVMON_REPO=<dir> points the checks at a scratch worktree."}
json.dump(m, open(os.path.join(V, "MANIFEST.json"), "w"), indent=1)
print("claimed:", [c["property_id"] for c in checks])
