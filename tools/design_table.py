#!/venv/bin/python
"""Print the II.1 table of DESIGN.md (what every check observed) from evidence/*.json."""
import json, os
V = os.path.dirname(os.path.dirname(os.path.abspath(__file__)))


def short(n):
    if isinstance(n, float):
        return "%.3g" % n
    if n >= 1000000:
        return "%.1f M" % (n / 1e6)
    if n >= 10000:
        return "%d k" % round(n / 1000.0)
    return str(n)


print("| id | cases (distinct non-trivial) | counters of the deciding monitors (quick tier, seed 0) |")
print("|---|---|---|")
for i in range(1, 21):
    pid = "C%02d" % i
    d = json.load(open(os.path.join(V, "evidence", pid + ".json")))
    cov = d["coverage"]
    ev = cov.get("events", {})
    items = sorted(ev.items(), key=lambda kv: kv[0])
    txt = ", ".join("%s %s" % (k.replace("_", " "), short(v)) for k, v in items)
    dist = cov.get("distinct", {})
    if dist:
        txt += "; distinct: " + ", ".join("%s %s" % (k.replace("_", " "), short(v if isinstance(v, int) else len(v))) for k, v in sorted(dist.items()))
    print("| %s | %s (%s) | %s |" % (pid, short(cov.get("evaluations", 0)), short(cov.get("distinct_nontrivial", 0)), txt))
