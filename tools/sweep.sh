#!/bin/sh
# tools/sweep.sh <tier> <seed>... : run every claimed check for every seed; print one line per run
tier="$1"; shift
cd "$(dirname "$0")/.."
ev=$(mktemp -d /tmp/sweep_ev.XXXXXX)
for seed in "$@"; do
  for c in C01 C02 C03 C04 C05 C06 C07 C08 C09 C10 C11 C12 C13 C14 C15 C16 C17 C18 C19 C20; do
    out=$(PVMON_EVIDENCE_DIR="$ev" ./run_check.py $c --tier "$tier" --seed "$seed" 2>&1); rc=$?
    echo "seed=$seed $c rc=$rc $(echo "$out" | grep -E 'VIOLATION|INCONCLUSIVE|WORKER-CRASH|watchdog' | head -3 | cut -c1-250 | tr '\n' ' ')"
  done
done
rm -rf "$ev"
