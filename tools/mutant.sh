#!/bin/sh
# tools/mutant.sh <patch.diff> <tier> <check ids...>
# applies the patch to a scratch worktree of /repo HEAD (never to /repo), runs the checks against it
# (PVMON_REPO), prints one line per check, removes the worktree.
patch=$(realpath "$1"); tier="$2"; shift 2
wt=$(mktemp -d /tmp/mut_wt.XXXXXX); rmdir "$wt"
git -C /repo worktree add -q --detach "$wt" HEAD || exit 9
if ! git -C "$wt" apply "$patch" 2>/dev/null; then
  if ! git -C "$wt" apply -3 "$patch" 2>/dev/null; then echo "PATCH-DOES-NOT-APPLY $patch"; git -C /repo worktree remove --force "$wt"; exit 8; fi
fi
ev=$(mktemp -d /tmp/mut_ev.XXXXXX)
for c in "$@"; do
  out=$(cd /verif && PVMON_REPO="$wt" PVMON_EVIDENCE_DIR="$ev" ./run_check.py "$c" --tier "$tier" 2>&1)
  rc=$?
  echo "== $c rc=$rc :: $(echo "$out" | grep -m2 -E 'VIOLATION|INCONCLUSIVE|WORKER-CRASH' | cut -c1-260)"
done
rm -rf "$ev"
git -C /repo worktree remove --force "$wt"
