#!/bin/sh
# offline setup: runtime-contract libraries beside the repository's interpreter
set -e
cd "$(dirname "$0")"
if [ ! -d .deps/icontract ]; then
  /venv/bin/pip install -q --no-index --find-links /opt/veriftools/wheels --target .deps icontract deal >/dev/null 2>&1 || \
  /venv/bin/pip install --no-index --find-links /opt/veriftools/wheels --target .deps icontract deal
fi
mkdir -p evidence replays
PYTHONPATH=/repo:.deps:. TQDM_DISABLE=1 /venv/bin/python -c "import icontract, polyply, pvmon.core; print('setup ok: icontract', icontract.__version__)"
