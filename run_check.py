#!/venv/bin/python
"""./run_check.py Cxx [--tier quick|thorough] [--seed N] [--replay path]
exit 0 = held on everything observed, 1 = VIOLATION, 2 = INCONCLUSIVE"""
import argparse, os, sys
sys.path.insert(0, os.path.dirname(os.path.abspath(__file__)))
os.environ.setdefault("PYTHONHASHSEED", "0")

def main():
    ap = argparse.ArgumentParser()
    ap.add_argument("pid")
    ap.add_argument("--tier", default=os.environ.get("VERIF_TIER", "quick"), choices=["quick", "thorough"])
    ap.add_argument("--seed", type=int, default=int(os.environ.get("VERIF_SEED", "0")))
    ap.add_argument("--jobs", type=int, default=None)
    ap.add_argument("--replay", default=None)
    a = ap.parse_args()
    from pvmon import core
    # the runner itself must see the repo + deps for plan()/replay
    sys.path[:0] = [core.REPO, os.path.join(core.VERIF, ".deps")]
    if not os.path.isdir(os.path.join(core.VERIF, ".deps", "icontract")):
        import subprocess
        subprocess.run(["/bin/sh", os.path.join(core.VERIF, "setup.sh")], check=True, stdout=subprocess.DEVNULL)
    sys.exit(core.run_check(a.pid, a.tier, a.seed, jobs=a.jobs, replay=a.replay))

if __name__ == "__main__":
    main()
