"""Seeded GROMACS systems for gen_coords: atom types, residue definitions, molecule types, [molecules]."""
import math

TYPE_POOL = [("A", 0.47, 2.0, 72.0), ("B", 0.41, 2.5, 54.0), ("C", 0.62, 1.5, 72.0), ("D", 0.34, 1.0, 36.0),
             ("E", 0.52, 3.0, 45.0), ("F", 0.43, 2.0, 36.0)]


def gen_residue(rng, resname, tnames, kind=None, max_atoms=4):
    kind = kind or rng.choice(["single", "single", "chain", "chain", "branch", "vs2", "vsn", "chiral", "vs1"])
    atoms, bonds, angles, vs = [], [], [], []

    def atom(name, mass="type"):
        atoms.append({"name": name, "atype": rng.choice(tnames), "charge": 0.0,
                      "mass": (None if rng.random() < 0.5 else rng.choice([36.0, 54.0, 72.0])) if mass == "type" else mass})
    if kind == "single":
        atom("X0")
    elif kind in ("chain", "branch"):
        n = rng.randint(2, max_atoms)
        for i in range(n):
            atom("X%d" % i)
            if i:
                j = i - 1 if kind == "chain" else rng.randrange(i)
                bonds.append((j, i, round(rng.uniform(0.25, 0.4), 3), 5000))
        if n >= 3 and kind == "chain":
            angles.append((0, 1, 2, rng.choice([100, 120, 140, 180]), 100))
    elif kind == "vs2":
        atom("X0")
        atom("X1")
        atom("V2", mass=0.0)
        bonds.append((0, 1, 0.35, 5000))
        vs.append(("virtual_sites2", [2, 0, 1], ["1", "%.3f" % rng.choice([0.5, 0.3, 0.7])]))
    elif kind == "vs1":
        # a virtual site on top of one atom (the CA site of Martini 3 proteins): two particles at the same place
        atom("X0")
        atom("X1")
        atom("V2", mass=0.0)
        bonds.append((0, 1, 0.33, 5000))
        vs.append(("virtual_sitesn", [2, 0], ["1"]))
    elif kind == "vsn":
        for i in range(3):
            atom("X%d" % i)
        atom("V3", mass=0.0)
        bonds += [(0, 1, 0.3, 5000), (1, 2, 0.3, 5000), (0, 2, 0.3, 5000)]
        vs.append(("virtual_sitesn", [3, 0, 1, 2], ["1"]))
    elif kind == "chiral":
        # a centre with four different arms: rank-3 template with a handedness (improper fixes it)
        atom("CX")
        lens = [0.25, 0.30, 0.35, 0.40]
        for i in range(4):
            atom("S%d" % i)
            bonds.append((0, i + 1, lens[i], 8000))
        for a, b in ((1, 2), (1, 3), (1, 4), (2, 3), (2, 4), (3, 4)):
            angles.append((a, 0, b, 109.5, 200))
    return {"name": resname, "kind": kind, "atoms": atoms, "bonds": bonds, "angles": angles, "vs": vs}


def gen_system(rng, max_types=3, max_res=8, max_count=3, kinds=None, shapes=("lin", "lin", "tree", "ring"),
               min_res=1, n_restypes=None, same_link_atom=False):
    ntypes = rng.randint(2, 5)
    types = rng.sample(TYPE_POOL, ntypes)
    atypes = {t[0]: {"sigma": t[1], "eps": t[2], "mass": t[3]} for t in types}
    tnames = sorted(atypes)
    nrt = n_restypes or rng.randint(1, 4)
    residues = {}
    for i in range(nrt):
        rn = "R%s" % "ABCDEFGH"[i]
        residues[rn] = gen_residue(rng, rn, tnames, kind=(rng.choice(kinds) if kinds else None))
    moltypes = []
    for mi in range(rng.randint(1, max_types)):
        nres = rng.randint(min_res, max_res)
        res = [rng.choice(sorted(residues)) for _ in range(nres)]
        shape = rng.choice(shapes)
        if shape == "lin" or nres < 3:
            shape = "lin"
            edges = [(i, i + 1) for i in range(nres - 1)]
        elif shape == "tree":
            edges = [(rng.randrange(i), i) for i in range(1, nres)]
        else:
            edges = [(i, (i + 1) % nres) for i in range(nres)]
        links = []
        for a, b in edges:
            ia = 0 if same_link_atom else rng.randrange(_nreal(residues[res[a]]))
            ib = 0 if same_link_atom else rng.randrange(_nreal(residues[res[b]]))
            links.append((ia, ib, round(rng.uniform(0.3, 0.45), 3)))
        resids = list(range(1, nres + 1))
        if nres >= 4 and rng.random() < 0.0:      # disabled: polyply requires unique residue ids per molecule (back-mapping and the walk crash otherwise)
            # residue ids that restart inside the molecule (two chains written one after the other): two residues may
            # share an id as long as they differ in name
            h = nres // 2
            trial = list(range(1, h + 1)) + list(range(1, nres - h + 1))
            if len({(a, b) for a, b in zip(trial, res)}) == nres:
                resids = trial
        moltypes.append({"name": "M%d" % mi, "res": res, "edges": edges, "links": links, "shape": shape, "resids": resids})
    molecules = []
    for _ in range(rng.randint(1, len(moltypes) + 1)):
        molecules.append((rng.choice(moltypes)["name"], rng.randint(1, max_count)))
    used = {m for m, _ in molecules}
    return {"atypes": atypes, "residues": residues, "moltypes": moltypes, "molecules": molecules,
            "comb_rule": 2, "defaults": "1 2 no 1.0 1.0"}


def _nreal(res):
    return len([a for a in res["atoms"] if not a["name"].startswith("V")])


def shown(sysd, rn):
    """residue name as written in the files: several residue definitions may go under one name (polyply keeps one
    template and size per distinct residue graph, not per name)"""
    return sysd.get("alias", {}).get(rn, rn)


def alias_residues(rng, sysd):
    """let a second, different residue definition appear under the name of the first one; returns the pair or None"""
    keys = sorted(sysd["residues"])
    pairs = [(a, b) for a in keys for b in keys if a < b and
             ([x["name"] for x in sysd["residues"][a]["atoms"]], sysd["residues"][a]["bonds"]) !=
             ([x["name"] for x in sysd["residues"][b]["atoms"]], sysd["residues"][b]["bonds"])]
    used = {rn for mt in sysd["moltypes"] for rn in mt["res"]}
    pairs = [(a, b) for a, b in pairs if a in used and b in used]
    if not pairs:
        return None
    a, b = rng.choice(pairs)
    sysd.setdefault("alias", {})[b] = a
    return a, b


def render_moltype(sysd, mt):
    lines = ["[ moleculetype ]", "%s 1" % mt["name"], "[ atoms ]"]
    first = []
    k = 1
    bonds, angles, vs = [], [], {}
    for ri, rn in enumerate(mt["res"]):
        r = sysd["residues"][rn]
        first.append(k)
        for j, a in enumerate(r["atoms"]):
            row = "%d %s %d %s %s %d %.3f" % (k + j, a["atype"], mt.get("resids", range(1, 10 ** 6))[ri], shown(sysd, rn), a["name"], k + j, a["charge"])
            m_over = mt.get("mass_over", {}).get((ri, j))
            if m_over is not None:
                row += " %r" % m_over
            elif a["mass"] is not None:
                row += " %r" % a["mass"]
            lines.append(row)
        for i, j, b0, kb in r["bonds"]:
            bonds.append("%d %d 1 %.3f %d" % (k + i, k + j, b0, kb))
        for i, j, l, th, ka in r["angles"]:
            angles.append("%d %d %d 1 %s %d" % (k + i, k + j, k + l, th, ka))
        for sec, ats, params in r["vs"]:
            if sec == "virtual_sitesn":
                row = "%d %s %s" % (k + ats[0], params[0], " ".join(str(k + x) for x in ats[1:]))
            else:
                row = " ".join(str(k + x) for x in ats) + " " + " ".join(params)
            vs.setdefault(sec, []).append(row)
        k += len(r["atoms"])
    for (a, b), (ia, ib, b0) in zip(mt["edges"], mt["links"]):
        bonds.append("%d %d 1 %.3f 1000" % (first[a] + ia, first[b] + ib, b0))
    if bonds:
        lines += ["[ bonds ]"] + bonds
    if angles:
        lines += ["[ angles ]"] + angles
    for sec, rows in vs.items():
        lines += ["[ %s ]" % sec] + rows
    return lines


def render_top(sysd, include=None):
    lines = ["[ defaults ]", sysd["defaults"], "[ atomtypes ]"]
    for t, m_, sg_ in sysd.get("atypes_defined_before", []):
        # an earlier definition of the same type (a force-field file that the topology overrides): the last one counts
        lines.append("%s %r 0.0 A %r %r" % (t, m_, sg_, sysd["atypes"][t]["eps"]))
    for t, d in sorted(sysd["atypes"].items()):
        lines.append("%s %r 0.0 A %r %r" % (t, d["mass"], d["sigma"], d["eps"]))
    for mt in sysd["moltypes"]:
        lines += render_moltype(sysd, mt)
    lines += ["[ system ]", "pvmon system", "[ molecules ]"]
    for name, count in sysd["molecules"]:
        lines.append("%s %d" % (name, count))
    return "\n".join(lines) + "\n"


def expand(sysd):
    """list of molecule instances in [molecules] order: (moltype dict, instance index)"""
    mts = {m["name"]: m for m in sysd["moltypes"]}
    out = []
    for name, count in sysd["molecules"]:
        for _ in range(count):
            out.append(mts[name])
    return out


def expected_rows(sysd):
    """(resid, resname, atomname) for every atom of the expanded system, in topology order"""
    rows = []
    for mt in expand(sysd):
        for ri, rn in enumerate(mt["res"]):
            for a in sysd["residues"][rn]["atoms"]:
                rows.append((mt.get("resids", range(1, 10 ** 6))[ri], shown(sysd, rn), a["name"]))
    return rows


def total_mass(sysd):
    m = 0.0
    for mt in expand(sysd):
        for ri, rn in enumerate(mt["res"]):
            for j, a in enumerate(sysd["residues"][rn]["atoms"]):
                over = mt.get("mass_over", {}).get((ri, j))
                if over is not None:
                    m += over
                else:
                    m += a["mass"] if a["mass"] is not None else sysd["atypes"][a["atype"]]["mass"]
    return m


def add_mass_overrides(rng, sysd):
    """some atoms of some residue instances carry their own mass in the [ atoms ] line (heavier end groups, isotopes):
    copies of one residue then differ in mass; virtual sites keep mass 0"""
    n = 0
    for mt in sysd["moltypes"]:
        for ri, rn in enumerate(mt["res"]):
            if rng.random() < 0.3:
                for j, a in enumerate(sysd["residues"][rn]["atoms"]):
                    if not a["name"].startswith("V") and rng.random() < 0.6:
                        mt.setdefault("mass_over", {})[(ri, j)] = rng.choice([12.0, 100.0, 150.5, 250.0])
                        n += 1
    return n


def n_residues(sysd):
    return sum(len(mt["res"]) for mt in expand(sysd))


def describe(sysd):
    return {"atypes": {k: v["sigma"] for k, v in sysd["atypes"].items()},
            "residues": {k: (v["kind"], len(v["atoms"])) for k, v in sysd["residues"].items()},
            "moltypes": [(m["name"], m["shape"], m["res"]) for m in sysd["moltypes"]],
            "molecules": sysd["molecules"], "same_name": sysd.get("alias", {})}


# ----------------------------------------------------------------------------- .gro io (own reader/writer)
def read_gro(path):
    lines = open(path).read().split("\n")
    n = int(lines[1])
    rows = []
    for ln in lines[2:2 + n]:
        resid = int(ln[0:5])
        resname = ln[5:10].strip()
        name = ln[10:15].strip()
        rest = ln[20:].split()
        xyz = tuple(rest[0:3])
        rows.append({"resid": resid, "resname": resname, "name": name, "xyz_text": xyz,
                     "xyz": tuple(float(x) for x in xyz)})
    box = [float(x) for x in lines[2 + n].split()]
    return {"title": lines[0], "rows": rows, "box": box}


def write_gro(path, rows, box, title="pvmon input"):
    out = [title, str(len(rows))]
    for i, r in enumerate(rows, 1):
        out.append("%5d%-5s%5s%5d%8.3f%8.3f%8.3f" % (r["resid"] % 100000, r["resname"], r["name"], i % 100000,
                                                     r["xyz"][0], r["xyz"][1], r["xyz"][2]))
    out.append("%10.5f%10.5f%10.5f" % tuple(box))
    with open(path, "w") as fh:
        fh.write("\n".join(out) + "\n")


def write_pdb(path, rows, box, title="pvmon input", cryst=True):
    """own PDB writer; rows carry 'ter' = True when a TER record follows the atom (end of a molecule);
    coordinates in nm with 3 decimals are exact in the 3-decimal Angstrom columns"""
    out = ["TITLE     " + title]
    if cryst:
        out.append("CRYST1%9.3f%9.3f%9.3f%7.2f%7.2f%7.2f P 1           1" % (box[0] * 10, box[1] * 10, box[2] * 10, 90, 90, 90))
    for i, r in enumerate(rows, 1):
        name = r["name"]
        out.append("ATOM  %5d %-4s %-4s%1s%4d    %8.3f%8.3f%8.3f%6.2f%6.2f" %
                   (i % 100000, name, r["resname"][:4], "A", r["resid"] % 10000,
                    r["xyz"][0] * 10, r["xyz"][1] * 10, r["xyz"][2] * 10, 1.0, 0.0))
        if r.get("ter"):
            out.append("TER")
    out.append("END")
    with open(path, "w") as fh:
        fh.write("\n".join(out) + "\n")
