"""Seeded generator of abstract force-field specs + renderers (.ff / polyply .itp).

The spec is *abstract* (plain dicts); the oracles compute their expectations from
the spec, never from vermouth objects, so that both parsers are inside the checked
path.  All random draws come from the ``rng`` passed in.

block  = {name, nrexcl, syntax: 'ff'|'itp',
          atoms: [{name, atype, charge, mass, cg, resname, rid}]      rid = residue index inside the block (1..k)
          inter: [{sec, atoms: [local idx0, ...], params: [tok], meta: {}}]   idx0 >= natoms => dangling (itp only)
          multi: bool}
link   = {atoms: {key: {order, name, attrs: {...}, replace: {...}|None, remove: bool}}   key = (str(order), name)
          resname_all: str|None,
          inter: [{sec, atoms: [key...], params, meta}],
          edges: [(key, key, {attrs})], nonedges: [(key, {order, name, attrs})], patterns: [[(key, attrs)...]]}
"""
import json

ATYPES = ["P1", "P2", "C1", "N0", "Q5", "SC3"]
SEC_NATOMS = {"bonds": 2, "angles": 3, "dihedrals": 4, "impropers": 4, "constraints": 2, "pairs": 2,
              "position_restraints": 1, "exclusions": 2}


def pref(order):
    if isinstance(order, int):
        return "+" * order if order >= 0 else "-" * (-order)
    return order


def _params(rng, sec):
    if sec == "bonds":
        return [str(rng.choice([1, 2, 6])), "%.3f" % rng.uniform(0.2, 0.6), str(rng.randint(100, 9999))]
    if sec == "angles":
        return [str(rng.choice([1, 2, 10])), str(rng.randint(60, 180)), str(rng.randint(10, 500))]
    if sec == "dihedrals":
        return [rng.choice(["1", "9"]), str(rng.randint(0, 180)), "%.2f" % rng.uniform(0.5, 30), str(rng.randint(1, 6))]
    if sec == "impropers":
        return ["2", str(rng.randint(0, 40)), str(rng.randint(10, 300))]
    if sec == "constraints":
        return ["1", "%.3f" % rng.uniform(0.2, 0.5)]
    if sec == "pairs":
        return ["1"]
    if sec == "position_restraints":
        return ["1", "1000", "1000", str(rng.choice([1000, 0]))]
    if sec == "exclusions":
        return []
    raise KeyError(sec)


def gen_block(rng, name, syntax, max_atoms=5, sections=None, allow_cond=True, nrexcl=None, prefix=None):
    na = rng.randint(1, max_atoms)
    prefix = prefix or name[-1]
    atoms = []
    cg = 1
    for i in range(na):
        if i and rng.random() < 0.6:
            cg += 1
        atoms.append({"name": "%s%d" % (prefix, i), "atype": rng.choice(ATYPES),
                      "charge": rng.choice([0.0, 0.5, -0.5, 1.0, -0.25]),
                      "mass": rng.choice([36.0, 45.0, 72.0, 12.011, 54.5]),
                      "cg": cg, "resname": name, "rid": 1})
    inter = []
    tree = [(rng.randrange(i), i) for i in range(1, na)]
    if na >= 3 and rng.random() < 0.25:
        extra = (0, na - 1)
        if extra not in tree:
            tree.append(extra)
    bond_sec = "constraints" if rng.random() < 0.15 else "bonds"
    for a, b in tree:
        sec = bond_sec if rng.random() < 0.85 else ("constraints" if bond_sec == "bonds" else "bonds")
        at = [a, b] if rng.random() < 0.7 else [b, a]
        inter.append({"sec": sec, "atoms": at, "params": _params(rng, sec), "meta": {}})
    sections = sections or ["angles", "dihedrals", "impropers", "pairs", "position_restraints", "exclusions"]
    seen = set()
    for sec in sections:
        n = SEC_NATOMS[sec]
        if na < n or rng.random() < 0.55:
            continue
        for _ in range(rng.randint(1, 2)):
            at = rng.sample(range(na), n)
            key = (sec, tuple(at))
            if key in seen:
                continue
            seen.add(key)
            meta = {}
            if allow_cond and sec in ("angles", "dihedrals", "position_restraints") and rng.random() < 0.2:
                meta = {rng.choice(["ifdef", "ifndef"]): rng.choice(["FLEXIBLE", "POSRES"])}
            inter.append({"sec": sec, "atoms": at, "params": _params(rng, sec), "meta": meta})
            # multi-term dihedral: same atoms, distinct version tags (the documented way to keep both)
            if sec == "dihedrals" and syntax == "ff" and rng.random() < 0.3:
                inter[-1]["meta"] = dict(meta, version=1)
                inter.append({"sec": sec, "atoms": list(at), "params": _params(rng, sec),
                              "meta": dict(meta, version=2)})
    return {"name": name, "nrexcl": rng.randint(0, 3) if nrexcl is None else nrexcl, "syntax": syntax,
            "atoms": atoms, "inter": inter, "multi": False}


def gen_multi_block(rng, name, resnames, max_atoms=3):
    """multi-residue block (always .itp syntax): residues chained by bonds"""
    atoms, inter = [], []
    first = []
    for rid, rn in enumerate(resnames, 1):
        na = rng.randint(1, max_atoms)
        first.append(len(atoms))
        base = len(atoms)
        for i in range(na):
            atoms.append({"name": "%s%d%d" % (rn[-1], rid, i), "atype": rng.choice(ATYPES),
                          "charge": rng.choice([0.0, 0.5, -0.5]), "mass": rng.choice([36.0, 72.0]),
                          "cg": len(atoms) + 1, "resname": rn, "rid": rid})
            if i:
                inter.append({"sec": "bonds", "atoms": [base + rng.randrange(i), base + i],
                              "params": _params(rng, "bonds"), "meta": {}})
        if rid > 1:
            inter.append({"sec": "bonds", "atoms": [first[rid - 2], first[rid - 1]],
                          "params": _params(rng, "bonds"), "meta": {}})
    # an angle along a bonded path (keeps the bond graph equal to bonds + constraints)
    adj = {}
    for it in inter:
        x, y = it["atoms"]
        adj.setdefault(x, set()).add(y)
        adj.setdefault(y, set()).add(x)
    paths = [(a, m, c) for m in adj for a in adj[m] for c in adj[m] if a < c]
    if paths and rng.random() < 0.6:
        at = list(rng.choice(sorted(paths)))
        inter.append({"sec": "angles", "atoms": at, "params": _params(rng, "angles"), "meta": {}})
    return {"name": name, "nrexcl": rng.randint(1, 3), "syntax": "itp", "atoms": atoms, "inter": inter,
            "multi": True, "resnames": list(resnames)}


def add_dangling(rng, block, nwin=1):
    """add dangling interactions (itp syntax): indices beyond the block refer to the next residue(s)"""
    na = len(block["atoms"])
    out = []
    for _ in range(rng.randint(1, 2)):
        sec = rng.choice(["bonds", "bonds", "angles", "constraints"] if nwin == 1 else ["angles", "dihedrals"])
        n = SEC_NATOMS[sec]
        span = rng.randint(1, nwin)
        if na * (span + 1) < n or n < span + 1:
            continue
        while True:
            at = [rng.randrange(na * (span + 1)) for _ in range(n)]
            ords = sorted({a // na for a in at})
            if len(set(at)) == n and ords == list(range(span + 1)):
                break
        # keep residue orders monotone along the interaction so that the link residue graph is a path
        at.sort(key=lambda a: a // na)
        key = (sec, tuple(at))
        if key in {(i["sec"], tuple(i["atoms"])) for i in out}:
            continue
        out.append({"sec": sec, "atoms": at, "params": _params(rng, sec), "meta": {}})
    block["inter"] += out
    return out


# ----------------------------------------------------------------------------- links
def gen_link(rng, blocks, opts):
    """returns link dict or None. blocks: dict name -> single-residue block"""
    names = sorted(blocks)
    style = rng.choice(opts.get("styles", ["num", "num", "num", "sym", "star"]))
    nres = rng.choice(opts.get("nres", [2, 2, 2, 3]))
    if style == "num":
        orders = {2: [[0, 1], [-1, 0], [0, 2], [0, 1]], 3: [[0, 1, 2], [-1, 0, 1]], 4: [[0, 1, 2, 3], [-1, 0, 1, 2]]}[nres]
    elif style == "sym":
        orders = {2: [[0, ">"], [0, "<"], ["<", 0]], 3: [[0, ">", ">>"], ["<", 0, ">"]], 4: [["<", 0, ">", ">>"]]}[nres]
    else:
        orders = {2: [[0, "*"]], 3: [[0, "*", "**"]], 4: [[0, "*", "**", "***"]]}[nres]
    orders = rng.choice(orders)
    rsets = [sorted(rng.sample(names, rng.choice([1, 1, 1, 2]) if len(names) > 1 else 1)) for _ in orders]
    use_global = all(r == rsets[0] for r in rsets) and rng.random() < 0.5
    latoms = {}

    def mk_atom(p):
        rn = rng.choice(rsets[p])
        a = rng.choice(blocks[rn]["atoms"])
        key = (str(orders[p]), a["name"])
        if key not in latoms:
            attrs = {} if use_global else {"resname": "|".join(rsets[p])}
            if not use_global and latoms and rng.random() < opts.get("p_partial_resname", 0.0):
                attrs = {}          # an atom of the link that says nothing about its residue name (never the first one)
            if rng.random() < opts.get("p_attr", 0.15):
                attrs["atype"] = rng.choice(ATYPES[:3]) if rng.random() < 0.5 else a["atype"]
            latoms[key] = {"order": orders[p], "name": a["name"], "attrs": attrs, "replace": None, "remove": False}
        return key

    inter = []
    nint = rng.choice([1, 1, 1, 2])
    for k in range(nint):
        sec = rng.choice(["bonds", "bonds", "angles", "constraints"]) if nres == 2 else \
            (rng.choice(["angles", "dihedrals"]) if nres == 3 else "dihedrals")
        n = SEC_NATOMS[sec]
        for _try in range(20):
            pick = sorted(rng.randrange(len(orders)) for _ in range(n))
            if set(pick) == set(range(len(orders))) or (k > 0 and len(set(pick)) >= 1):
                break
        else:
            return None
        if k == 0 and set(pick) != set(range(len(orders))):
            return None
        keys = [mk_atom(p) for p in pick]
        if len(set(keys)) < n:
            return None
        if rng.random() < 0.3:
            keys.reverse()
        meta = {}
        if rng.random() < opts.get("p_version", 0.12):
            meta["version"] = rng.randint(1, 2)
        if rng.random() < opts.get("p_cond", 0.08):
            meta[rng.choice(["ifdef", "ifndef"])] = "FLEXIBLE"
        inter.append({"sec": sec, "atoms": keys, "params": _params(rng, sec), "meta": meta})
    if len({(i["sec"], tuple(i["atoms"]), i["meta"].get("version", 1)) for i in inter}) < len(inter):
        return None
    link = {"atoms": latoms, "resname_all": "|".join(rsets[0]) if use_global else None, "inter": inter,
            "edges": [], "nonedges": [], "patterns": [], "orders": orders, "log": None}
    if rng.random() < opts.get("p_log", 0.0):
        link["log"] = (rng.choice(["info", "warning"]), "link message %d" % rng.randint(0, 99))
    # explicit edges instead of interaction-made edges (optionally labelled)
    if rng.random() < opts.get("p_edge", 0.15):
        label = rng.choice([None, None, "a", "b"]) if opts.get("linktypes") else None
        for it in inter:
            it["meta"]["edge"] = False
        done = set()
        for it in inter:
            for x, y in zip(it["atoms"][:-1], it["atoms"][1:]):
                if x != y and frozenset((x, y)) not in done and (it["sec"] in ("bonds", "constraints", "angles")):
                    done.add(frozenset((x, y)))
                    link["edges"].append((x, y, {"linktype": label} if label else {}))
        if not link["edges"]:
            return None
        if use_global and style == "num" and len(orders) >= 2 and rng.random() < opts.get("p_edge_only_atoms", 0.0):
            # one more explicit edge, between two atoms that no interaction of the link names
            ends = []
            for p_ in (0, 1):
                common = set.intersection(*[{a["name"] for a in blocks[rn]["atoms"]} for rn in rsets[p_]])
                free = sorted(nm for nm in common if (str(orders[p_]), nm) not in latoms)
                ends.append((str(orders[p_]), rng.choice(free)) if free else None)
            if all(ends):
                for p_, key in zip((0, 1), ends):
                    latoms[key] = {"order": orders[p_], "name": key[1], "attrs": {}, "replace": None, "remove": False}
                link["edges"].append((ends[0], ends[1], {"linktype": label} if label else {}))
                link["edge_only_atoms"] = True
    # replace: change an attribute that is never used for matching (charge / mass), or remove the atom
    if rng.random() < opts.get("p_replace", 0.15):
        key = rng.choice(sorted(latoms))
        if opts.get("replace_atype") and rng.random() < 0.7:
            # an atom type is replaced: other links that select this atom by its type still go by the type the block gave it
            latoms[key]["replace"] = {"atype": rng.choice(ATYPES[:3])}
        else:
            latoms[key]["replace"] = {rng.choice(["charge", "mass"]): rng.choice([0.125, 1.5, 99.0])}
    if rng.random() < opts.get("p_remove", 0.0):
        cands = [k for k in sorted(latoms) if k not in {a for it in inter for a in it["atoms"]}]
        # removal of an extra atom that is listed in [ atoms ] only
        rn = rng.choice(rsets[0])
        extra = [a for a in blocks[rn]["atoms"] if (str(orders[0]), a["name"]) not in latoms]
        if extra and len(blocks[rn]["atoms"]) > 1:
            a = rng.choice(extra)
            key = (str(orders[0]), a["name"])
            latoms[key] = {"order": orders[0], "name": a["name"],
                           "attrs": {} if use_global else {"resname": "|".join(rsets[0])},
                           "replace": None, "remove": True}
    # patterns: at least one row must match; rows constrain atype of link atoms
    if rng.random() < opts.get("p_pattern", 0.1):
        rows = []
        for _ in range(rng.randint(1, 2)):
            ks = rng.sample(sorted(latoms), min(len(latoms), rng.randint(1, 2)))
            rows.append([(k, {"atype": rng.choice(ATYPES[:4])}) for k in ks])
        link["patterns"] = rows
    # non-edges: veto if the anchor atom is bonded to a matching atom of residue resid+order (numeric)
    if rng.random() < opts.get("p_nonedge", 0.1) and style == "num":
        # the target order is counted from the anchor's residue; anchors are atoms of the reference residue
        # (order 0) so that "relative to the anchor" and "relative to the link" coincide
        anchors = [k for k in sorted(latoms) if latoms[k]["order"] == 0]
        anchor = rng.choice(anchors) if anchors else None
        o = 0
        tgt_order = rng.choice([0, 1, -1])
        pool = sorted({a["name"] for b in blocks.values() for a in b["atoms"]} - {k[1] for k in latoms})
        if pool and anchor:
            nm = rng.choice(pool)
            # bias towards a veto that can fire: an atom bonded to the anchor inside its block
            partners = set()
            for b in blocks.values():
                nms = [a["name"] for a in b["atoms"]]
                for it in b["inter"]:
                    if it["sec"] in ("bonds", "constraints") and max(it["atoms"]) < len(nms):
                        x, y = nms[it["atoms"][0]], nms[it["atoms"][1]]
                        if x == anchor[1]:
                            partners.add(y)
                        if y == anchor[1]:
                            partners.add(x)
            partners &= set(pool)
            if partners and rng.random() < 0.6:
                nm = rng.choice(sorted(partners))
                tgt_order = 0
            link["nonedges"].append((anchor, {"order": o + tgt_order, "name": nm, "attrs": {}}))
    return link


def _tok(latom, with_attrs=True, extra=None):
    t = pref(latom["order"]) + latom["name"]
    attrs = dict(latom["attrs"]) if with_attrs else {}
    if extra:
        attrs.update(extra)
    if attrs:
        t += " " + json.dumps(attrs)
    return t


def render_blocks_ff(blocks):
    out = []
    for b in blocks:
        out += ["[ moleculetype ]", "%s %d" % (b["name"], b["nrexcl"]), "[ atoms ]"]
        for i, a in enumerate(b["atoms"], 1):
            out.append("%d %s %d %s %s %d %r %r" % (i, a["atype"], a["rid"] + b.get("resnr_offset", 0), a["resname"], a["name"], a["cg"],
                                                    a["charge"], a["mass"]))
        cur = None
        for it in b["inter"]:
            if it["sec"] != cur:
                out.append("[ %s ]" % it["sec"])
                cur = it["sec"]
            toks = [b["atoms"][x]["name"] for x in it["atoms"]]
            line = " ".join(toks) + (" " + " ".join(it["params"]) if it["params"] else "")
            if it["sec"] == "exclusions":
                line += " --"
            if it["meta"]:
                line += " " + json.dumps(it["meta"])
            out.append(line)
    return out


def render_links_ff(links):
    out = []
    for l in links:
        out.append("[ link ]")
        if l["resname_all"]:
            out.append('resname "%s"' % l["resname_all"])
        special = [a for a in l["atoms"].values() if a["replace"] or a["remove"]]
        if special:
            out.append("[ atoms ]")
            for a in special:
                attrs = dict(a["attrs"])
                attrs["replace"] = {"atomname": None} if a["remove"] else a["replace"]
                out.append("%s%s %s" % (pref(a["order"]), a["name"], json.dumps(attrs)))
        cur = None
        for it in l["inter"]:
            if it["sec"] != cur:
                out.append("[ %s ]" % it["sec"])
                cur = it["sec"]
            line = " ".join(_tok(l["atoms"][k]) for k in it["atoms"])
            if it["params"]:
                line += " " + " ".join(it["params"])
            if it["meta"]:
                line += " " + json.dumps(it["meta"])
            out.append(line)
        if l["edges"]:
            out.append("[ edges ]")
            for x, y, attrs in l["edges"]:
                out.append("%s %s%s" % (_tok(l["atoms"][x], with_attrs=not l["inter"]),
                                        _tok(l["atoms"][y], with_attrs=not l["inter"]),
                                        (" " + json.dumps(attrs)) if attrs and l["inter"] else ""))
        if l["nonedges"]:
            out.append("[ non-edges ]")
            for x, tgt in l["nonedges"]:
                out.append("%s %s" % (_tok(l["atoms"][x], with_attrs=False),
                                      pref(tgt["order"]) + tgt["name"] + (" " + json.dumps(tgt["attrs"]) if tgt["attrs"] else "")))
        if l.get("log"):
            out += ["[ %s ]" % l["log"][0], l["log"][1]]
        if l["patterns"]:
            out.append("[ patterns ]")
            for row in l["patterns"]:
                out.append(" ".join("%s%s %s" % (pref(l["atoms"][k]["order"]), l["atoms"][k]["name"], json.dumps(at))
                                    for k, at in row))
    return out


def render_blocks_itp(blocks):
    out = []
    for b in blocks:
        out += ["[ moleculetype ]", "%s %d" % (b["name"], b["nrexcl"]), "[ atoms ]"]
        for i, a in enumerate(b["atoms"], 1):
            out.append("%d %s %d %s %s %d %r %r" % (i, a["atype"], a["rid"] + b.get("resnr_offset", 0), a["resname"], a["name"], a["cg"],
                                                    a["charge"], a["mass"]))
        # group by (section, conditional)
        order = []
        for it in b["inter"]:
            if it["sec"] not in order:
                order.append(it["sec"])
        for sec in order:
            out.append("[ %s ]" % ("dihedrals" if sec == "impropers" else sec))
            for it in b["inter"]:
                if it["sec"] != sec:
                    continue
                cond = [(k, v) for k, v in it["meta"].items() if k in ("ifdef", "ifndef")]
                if cond:
                    out.append("#%s %s" % cond[0])
                out.append(" ".join(str(x + 1) for x in it["atoms"]) + (" " + " ".join(it["params"]) if it["params"] else ""))
                if cond:
                    out.append("#endif")
    return out
