"""Seeded residue graphs: linear / tree / ring, contiguous resids from any start,
node keys 0..n-1 or shifted / permuted (C13 transformations are applied by the check)."""
import json


def gen_graph(rng, resnames, nmin=1, nmax=8, start=None, kinds=("lin", "tree", "ring"), labels=None):
    n = rng.randint(nmin, nmax)
    start = rng.choice([1, 1, 1, 2, 5, 17, 0]) if start is None else start
    nodes = [{"key": i, "resname": rng.choice(resnames), "resid": start + i} for i in range(n)]
    kind = rng.choice(kinds)
    edges = []
    if kind == "lin" or n < 3:
        kind = "lin"
        edges = [(i, i + 1) for i in range(n - 1)]
    elif kind == "tree":
        edges = [(rng.randrange(i), i) for i in range(1, n)]
    else:
        edges = [(i, (i + 1) % n) for i in range(n)]
        if n >= 5 and rng.random() < 0.3:
            edges.append((0, n // 2))
    out = []
    for a, b in edges:
        lab = rng.choice(labels) if labels else None
        out.append((a, b, lab))
    return {"nodes": nodes, "edges": out, "kind": kind}


def to_json(graph, path, order=None, flip=None):
    """write node-link JSON through networkx (same writer gen_seq uses)"""
    import networkx as nx
    from networkx.readwrite import json_graph
    g = nx.Graph()
    nodes = graph["nodes"] if order is None else [graph["nodes"][i] for i in order]
    for n in nodes:
        attrs = {k: v for k, v in n.items() if k != "key"}
        g.add_node(n["key"], **attrs)
    for i, (a, b, lab) in enumerate(graph["edges"]):
        if flip and flip[i]:
            a, b = b, a
        if lab is None:
            g.add_edge(a, b)
        else:
            g.add_edge(a, b, linktype=lab)
    with open(path, "w") as fh:
        json.dump(json_graph.node_link_data(g), fh)


def describe(graph):
    return {"kind": graph["kind"], "residues": [(n["resid"], n["resname"]) + ((n["from_itp"],) if n.get("from_itp") else ())
                                                 for n in graph["nodes"]],
            "edges": [(a, b) if lab is None else (a, b, lab) for a, b, lab in graph["edges"]]}
