"""Complete gen_params cases: force-field files + residue graph + abstract spec."""
import os

from . import ff as FF
from . import resgraph as RG

RESNAMES = ["RA", "RB", "RC", "RD"]


def build(rng, profile="full", **kw):
    """profile:
         full     - everything the reference understands (C01/C02/C11)
         sensible - interactions only along bonded paths, mixed nrexcl (C14/C10)
    returns case dict: spec, files [(name, text)], inpath [names], graph, descr
    """
    layout = rng.choice(kw.get("layouts", ["ff", "ff", "ff+itp", "itp+ff", "itp_dangling", "multi"]))
    nblocks = rng.randint(1, 3)
    names = RESNAMES[:nblocks]
    sensible = profile == "sensible"
    blocks = []
    has_itp = layout != "ff"
    # real force fields use the same atom names in many residues (BB, SC1): then only the residue name tells them apart
    shared_prefix = "X" if rng.random() < kw.get("p_shared_names", 0.2) else None
    for nm in names:
        if layout == "ff":
            syntax = "ff"
        elif layout in ("ff+itp", "itp+ff"):
            syntax = rng.choice(["ff", "itp"])
        else:
            syntax = "itp"
        sections = None
        if sensible:
            sections = []
        elif has_itp and syntax == "ff" and not kw.get("unrestricted_ff_sections"):
            sections = ["position_restraints"]      # edge-neutral (see DESIGN C13/C14 notes)
        b = FF.gen_block(rng, nm, syntax, max_atoms=kw.get("max_atoms", 5), sections=sections,
                         nrexcl=None if kw.get("mixed_nrexcl", True) else 1, prefix=shared_prefix)
        if sensible or (syntax == "itp"):
            _path_interactions(rng, b, pairs=not sensible)
        if syntax == "itp":
            # itp syntax has no version tags: one interaction per (section, atoms); impropers share [dihedrals]
            _dedupe_itp(b)
        if rng.random() < kw.get("p_resnr_offset", 0.1):
            # the residue-number column of a block need not start at 1 (a fragment cut out of a larger molecule)
            b["resnr_offset"] = rng.choice([1, 2, 6])
        blocks.append(b)
    if not kw.get("mixed_nrexcl", True) or rng.random() < kw.get("p_uniform", 0.5):
        v = rng.randint(0, 3)
        for b in blocks:
            b["nrexcl"] = v
    if kw.get("three_levels") and len(blocks) >= 3 and rng.random() < 0.6:
        lv = list(rng.choice([(1, 2, 3), (0, 2, 3), (0, 1, 3), (0, 1, 2)]))
        rng.shuffle(lv)
        for b, v in zip(blocks, lv):
            b["nrexcl"] = v
    single = {b["name"]: b for b in blocks}
    links = []
    opts = dict(kw.get("link_opts", {}))
    if layout != "ff" and not kw.get("unrestricted_ff_sections"):
        opts["p_version"] = 0.0       # version tags are rewritten when an .itp file is finalised
    if layout != "itp_dangling" or rng.random() < 0.3:
        for _ in range(rng.randint(0, kw.get("max_links", 4))):
            l = FF.gen_link(rng, single, opts)
            if l is not None:
                links.append(l)
    dangling_blocks = []
    if layout == "itp_dangling":
        for b in blocks:
            if rng.random() < 0.7:
                FF.add_dangling(rng, b, nwin=rng.choice([1, 1, 2]))
                dangling_blocks.append(b["name"])
    multi = None
    if layout == "multi":
        k = rng.randint(2, 3)
        rn = [rng.choice(["MX", "MY", "MZ"]) for _ in range(k)]
        multi = FF.gen_multi_block(rng, "MULTI", rn)
        if rng.random() < kw.get("p_resnr_offset", 0.1):
            multi["resnr_offset"] = rng.choice([1, 2, 6])
        blocks.append(multi)

    # ---- files -------------------------------------------------------------------------------------------
    ff_blocks = [b for b in blocks if b["syntax"] == "ff"]
    itp_blocks = [b for b in blocks if b["syntax"] == "itp"]
    files, inpath = [], []
    ff_text = "\n".join(FF.render_blocks_ff(ff_blocks) + FF.render_links_ff(links)) + "\n"
    itp_text = "\n".join(FF.render_blocks_itp(itp_blocks)) + "\n"
    have_ff = bool(ff_blocks or links)
    have_itp = bool(itp_blocks)
    if layout in ("itp+ff", "itp_dangling", "multi"):
        order = ["itp", "ff"]
    else:
        order = ["ff", "itp"]
    for kind in order:
        if kind == "ff" and have_ff:
            files.append(("case.ff", ff_text))
            inpath.append("case.ff")
        if kind == "itp" and have_itp:
            files.append(("case.itp", itp_text))
            inpath.append("case.itp")
    itp_after_ff = "case.itp" in inpath and "case.ff" in inpath and inpath.index("case.itp") > inpath.index("case.ff")
    for b in blocks:
        b["edge_all"] = b["syntax"] == "itp" or itp_after_ff

    # ---- links in definition order: force_field.links is appended to file by file -----------------------------
    from ..oracle.refparams import dangling_links
    spec_links = []
    for kind in inpath:
        if kind == "case.ff":
            spec_links += links
        else:
            for b in itp_blocks:
                if not b["multi"]:
                    spec_links += dangling_links(b)

    # ---- residue graph -------------------------------------------------------------------------------------
    labels = None
    if any(e[2] for l in links for e in l["edges"]):
        labels = [None, None, "a", "b"]
    graph = RG.gen_graph(rng, names, nmin=kw.get("nmin", 1), nmax=kw.get("nmax", 7), labels=labels,
                         start=kw.get("start"))
    if multi is not None:
        _splice_multi(rng, graph, multi)
    spec = {"blocks": blocks, "links": spec_links, "explicit": []}
    ff_extra = ""
    if kw.get("p_explicit", 0) and rng.random() < kw["p_explicit"] and have_ff and multi is None:
        bd = {b["name"]: b for b in blocks}
        natoms = sum(len(bd[n["resname"]]["atoms"]) for n in graph["nodes"])
        if natoms >= 4 and not any(a["remove"] for l in links for a in l["atoms"].values()):
            i = rng.randrange(1, natoms - 1)
            j = rng.randrange(i + 2, natoms + 1) if i + 2 <= natoms else None
            if j:
                params = ["1", "%.3f" % rng.uniform(0.3, 0.5), str(rng.randint(100, 999))]
                spec["explicit"].append({"sec": "bonds", "atoms": [i, j], "params": params})
                extra = "[ link ]\n[ molmeta ]\nby_atom_id true\n[ bonds ]\n%d %d %s\n" % (i, j, " ".join(params))
                if natoms >= 5 and rng.random() < 0.5:
                    # a second bond in the same explicit link, between another pair of atoms
                    for _try in range(10):
                        i2 = rng.randrange(1, natoms)
                        j2 = rng.randrange(i2 + 1, natoms + 1)
                        if {i2, j2} != {i, j}:
                            p2 = ["1", "%.3f" % rng.uniform(0.3, 0.5), str(rng.randint(100, 999))]
                            if rng.random() < 0.5:
                                spec["explicit"].append({"sec": "bonds", "atoms": [i2, j2], "params": p2})
                                extra += "%d %d %s\n" % (i2, j2, " ".join(p2))
                            else:
                                spec["explicit"].insert(len(spec["explicit"]) - 1, {"sec": "bonds", "atoms": [i2, j2], "params": p2})
                                extra = extra.replace("[ bonds ]\n", "[ bonds ]\n%d %d %s\n" % (i2, j2, " ".join(p2)))
                            break
                if natoms >= 6 and rng.random() < 0.4:
                    # the same explicit link also lists a 1-4 style pair between two atoms far apart: not a bond
                    i3 = rng.randrange(1, natoms - 3)
                    j3 = rng.randrange(i3 + 3, natoms + 1)
                    spec["explicit"].append({"sec": "pairs", "atoms": [i3, j3], "params": ["1"]})
                    extra += "[ pairs ]\n%d %d 1\n" % (i3, j3)
                files = [(n, (t + extra) if n == "case.ff" else t) for n, t in files]
                ff_extra = extra
    descr = {"layout": layout, "blocks": [(b["name"], b["syntax"], len(b["atoms"]), b["nrexcl"]) for b in blocks],
             "n_links": len(links), "dangling": dangling_blocks, "graph": RG.describe(graph)}
    return {"spec": spec, "files": files, "inpath": inpath, "graph": graph, "descr": descr, "layout": layout,
            "ff_links": links, "ff_extra": ff_extra}


def _path_interactions(rng, b, pairs=True):
    """angles / dihedrals along bonded paths only (keeps the bond graph = bonds + constraints)"""
    na = len(b["atoms"])
    adj = {i: set() for i in range(na)}
    for it in b["inter"]:
        if it["sec"] in ("bonds", "constraints"):
            x, y = it["atoms"]
            adj[x].add(y)
            adj[y].add(x)
    b["inter"] = [it for it in b["inter"] if it["sec"] in ("bonds", "constraints", "position_restraints")]
    paths3 = [(a, m, c) for m in adj for a in adj[m] for c in adj[m] if a < c]
    for p in paths3:
        if rng.random() < 0.4:
            b["inter"].append({"sec": "angles", "atoms": list(p), "params": FF._params(rng, "angles"), "meta": {}})
    paths4 = [(a, m, n, d) for m in adj for n in adj[m] if m < n for a in adj[m] if a != n for d in adj[n]
              if d != m and d != a]
    for p in paths4:
        if rng.random() < 0.4:
            b["inter"].append({"sec": "dihedrals", "atoms": list(p), "params": FF._params(rng, "dihedrals"), "meta": {}})


def _dedupe_itp(b):
    seen = set()
    out = []
    for it in b["inter"]:
        it["meta"] = {k: v for k, v in it["meta"].items() if k in ("ifdef", "ifndef")}
        key = ("dihedrals" if it["sec"] == "impropers" else it["sec"], tuple(it["atoms"]))
        if key in seen:
            continue
        seen.add(key)
        out.append(it)
    b["inter"] = out


def _splice_multi(rng, graph, multi):
    """append one or two copies of a multi-residue fragment to the end of the residue graph"""
    n0 = len(graph["nodes"])
    start = graph["nodes"][-1]["resid"] + 1
    ncopy = rng.choice([1, 1, 2])
    key = n0
    prev_last = graph["nodes"][-1]["key"]
    for c in range(ncopy):
        if c and rng.random() < 0.5:
            # a regular residue between two fragments: they are separate connected components of from_itp residues
            rn0 = graph["nodes"][0]["resname"] if not graph["nodes"][0].get("from_itp") else None
            if rn0:
                graph["nodes"].append({"key": key, "resname": rn0, "resid": start})
                graph["edges"].append((prev_last, key, None))
                prev_last = key
                key += 1
                start += 1
        first = key
        for j, rn in enumerate(multi["resnames"]):
            graph["nodes"].append({"key": key, "resname": rn, "resid": start, "from_itp": multi["name"]})
            if j:
                graph["edges"].append((key - 1, key, None))
            key += 1
            start += 1
        graph["edges"].append((prev_last, first, None))
        prev_last = key - 1
    graph["kind"] += "+multi%d" % ncopy
    if rng.random() < 0.3:
        # the last fragment takes the lowest residue ids (a molecule that begins with a multi-residue block)
        k = len(multi["resnames"])
        s0 = graph["nodes"][0]["resid"]
        for n in graph["nodes"][:-k]:
            n["resid"] += k
        for j, n in enumerate(graph["nodes"][-k:]):
            n["resid"] = s0 + j
        graph["kind"] += "+first"


def write_case(case, workdir, graph_name="case.json", order=None, flip=None):
    for name, text in case["files"]:
        with open(os.path.join(workdir, name), "w") as fh:
            fh.write(text)
    RG.to_json(case["graph"], os.path.join(workdir, graph_name), order=order, flip=flip)
