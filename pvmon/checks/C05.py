"""C05 - generated residues are one step apart, inside the box, never overlapping."""
import os
from pathlib import Path

import numpy as np

from ..core import new_result, bump, violation, sig_of, note
from ..gen import topo as T
from . import _coords_common as CC

PID = "C05"
LEVEL = "exploration"
RULE = ("seeded systems (1-3 molecule types, chains/trees/rings of 1-8 residues with 1-5 atoms, mixed residue sizes, "
        "1-3 copies) built by the real gen_coords in cubic and non-cubic boxes, by density, with user grids, step "
        "factors 0.7-1.2 and force limits 1e2-5e4; a wrapper on RandomWalk.update_positions / NonBondEngine."
        "add_positions re-checks every accepted placement by brute force over the engine's position table with "
        "explicit periodic images (inside box, exactly one step from the parent under minimum image, start on a "
        "grid point, no residue closer than 0.1 nm, soft-sphere force from non-neighbours within the cut-off <= limit); "
        "a boundary-stress stratum uses boxes of 2.4-3.2 nm so that many steps wrap. non-trivial = run with >= 5 "
        "checked placements; distinct = hash(topology text, options)"
        ' Later strata: force limit and step factor taken from the call, two residue definitions under one name, boxes that are whole multiples of the grid spacing (start must lie in [0, L)).')
ASSUMPTIONS = ["residue sizes are read from the captured topology.volumes (independent of the engine's interaction table)",
               "inside the box is tested as 0 <= x <= L (x % L may return L for x = -eps)",
               "overlap / force are checked against the residues positioned at the time of acceptance"]
CASE_TIMEOUT = 90
WALL = {"quick": 1200, "thorough": 10800}
MAX_TIMEOUTS = {"quick": 1, "thorough": 20}
REQUIRED = {"placements_checked": 1500, "placements_wrapped": 150, "start_on_grid_checked": 150,
            "placements_with_force": 100, "rejected_trials": 50, "noncubic_runs": 10, "user_grid_runs": 5,
            "density_runs": 5, "ring_closures": 500, "systems_with_tree_consolidation": 15,
            "systems_with_two_residues_under_one_name": 40, "boxes_that_are_multiples_of_the_grid_spacing": 30, "long_chains": 15}


def plan(tier, seed):
    n = 400 if tier == "quick" else 4000
    return [["sys", i] for i in range(n)] + [["edge", i] for i in range(n // 3)] + [["ring", i] for i in range(n // 2)] + \
        [["gridface", i] for i in range(n // 8)] + [["long", i] for i in range(n // 16)]


def setup():
    CC.attach_all()


def run_case(cid, rng, workdir):
    res = new_result()
    edge = cid[0] == "edge"
    if cid[0] == "ring":
        # small rings: the closing residue has a second, already positioned graph neighbour one step away, so a
        # trial point can land within 0.1 nm of a residue that is excluded from the force sum
        sysd = T.gen_system(rng, max_types=1, min_res=3, max_res=4, max_count=12, shapes=("ring",),
                            kinds=["single", "single", "chain"], n_restypes=2)
        sysd["molecules"] = [(sysd["moltypes"][0]["name"], rng.randint(8, 14))]
        bump(res, "ring_closures", sysd["molecules"][0][1])
    elif cid[0] == "long":
        # one long chain in a box it almost fills: the walk folds back on itself, so second neighbours come close
        sysd = T.gen_system(rng, max_types=1, min_res=100, max_res=150, max_count=1, kinds=["single"], shapes=("lin",))
        sysd["molecules"] = [(sysd["moltypes"][0]["name"], 1)]
        bump(res, "long_chains")
    elif cid[0] == "gridface":
        # box edges that are whole multiples of the grid spacing (4.2 nm with 0.2 or 0.3 nm): rounding puts the last plane
        # of a naive grid onto the upper face, which is outside the periodic cell; many short molecules = many starts
        sysd = T.gen_system(rng, max_types=1, min_res=1, max_res=2, max_count=1, kinds=["single", "chain"])
        sysd["molecules"] = [(sysd["moltypes"][0]["name"], rng.randint(10, 16))]
    else:
        sysd = T.gen_system(rng, max_types=2 if edge else 3, max_res=6 if edge else rng.choice([8, 8, 16]), max_count=2 if edge else 3)
        if any(len(mt["res"]) > 10 for mt in T.expand(sysd)):
            bump(res, "systems_with_tree_consolidation")
    if rng.random() < 0.3 and T.alias_residues(rng, sysd):
        # two different residues under one residue name (end groups with extra beads): sizes go by residue, not by name
        bump(res, "systems_with_two_residues_under_one_name")
    text = T.render_top(sysd)
    with open(os.path.join(workdir, "s.top"), "w") as fh:
        fh.write(text)
    nres = T.n_residues(sysd)
    opts = {}
    mode = rng.choice(["box", "box", "noncubic", "density", "grid"]) if not edge else rng.choice(["box", "noncubic"])
    lo, hi = (2.4, 3.2) if edge else (3.5, 6.5)
    if not edge and cid[0] != "ring":
        # keep the occupancy low enough for the walk to terminate (a system that cannot be packed is retried forever)
        need = (nres * 0.9) ** (1.0 / 3.0)
        lo, hi = max(lo, need), max(hi, need + 1.0)
    if mode == "density":
        # the box must stay larger than two steps, otherwise "one step under minimum image" is not defined and a
        # handful of residues cannot be placed at all (the builder then retries forever)
        opts["density"] = min(rng.uniform(60, 250), T.total_mass(sysd) * 1.6605410 / 2.6 ** 3)
        bump(res, "density_runs")
    else:
        if mode == "noncubic":
            box = np.array([round(rng.uniform(lo, hi), 3) for _ in range(3)])
            bump(res, "noncubic_runs")
        else:
            b = round(rng.uniform(lo, hi), 3)
            box = np.array([b, b, b])
        opts["box"] = box
        if mode == "grid":
            pts = np.array([[rng.uniform(0, box[k]) for k in range(3)] for _ in range(rng.randint(40, 200))])
            np.savetxt(os.path.join(workdir, "grid.dat"), pts)
            opts["grid"] = os.path.join(workdir, "grid.dat")
            bump(res, "user_grid_runs")
    opts["step_fudge"] = rng.choice([0.7, 0.8, 1.0, 1.0, 1.2])
    opts["max_force"] = rng.choice([1e2, 1e3, 5e3, 5e4])
    # a low force limit with shortened steps (the second neighbour then sits inside the repulsive core) or with long
    # chains makes the walk practically non-terminating: keep the workload satisfiable
    if opts["max_force"] <= 1e2 and opts["step_fudge"] < 1.0:
        opts["step_fudge"] = 1.0
    if any(len(mt["res"]) > 10 for mt in T.expand(sysd)):
        opts["max_force"] = max(opts["max_force"], 5e3)
    opts["grid_spacing"] = rng.choice([0.2, 0.3, 0.5])
    if cid[0] == "gridface":
        gs = rng.choice([0.2, 0.3])
        opts.pop("density", None)
        opts.pop("grid", None)
        opts["grid_spacing"] = gs
        opts["box"] = np.array([rng.choice([4.2, 3.6, 4.8, 5.4, 6.6]) for _ in range(3)])
        bump(res, "boxes_that_are_multiples_of_the_grid_spacing")
    opts["nrewind"] = rng.choice([1, 3, 5])
    run, ctx = CC.run_gen_coords(toppath=Path(workdir) / "s.top", outpath=Path(workdir) / "o.gro", name="x", **opts)
    desc = {"system": T.describe(sysd), "options": {k: (v.tolist() if hasattr(v, "tolist") else v) for k, v in opts.items()
                                                   if k != "grid"}, "mode": mode, "stratum": cid[0]}
    res["sample"] = desc
    res["sig"] = sig_of([text, desc["options"]])
    if run["status"] != "ok":
        res["status"] = "rejected"
        violation(res, "gen-coords-raises:%s" % run["exc_type"], "gen_coords raised %s on a valid system\n%s" %
                  (run["error"], run.get("tb", "")[-600:]), {"top": text, "options": desc["options"]})
        return res
    st = ctx["stats"]
    for k in ("placements_checked", "placements_wrapped", "start_placements", "start_on_grid_checked",
              "placements_with_force"):
        bump(res, k, st.get(k, 0))
    bump(res, "rejected_trials", ctx["rejected_trials"])
    if "max_force_ratio" in st:
        bump(res, "max_force_ratio", st["max_force_ratio"])
    if "min_closest_approach" in st:
        bump(res, "min_closest_approach", st["min_closest_approach"])
    res["nontrivial"] = st.get("placements_checked", 0) >= 5
    seen = set()
    for key, msg in ctx["viol"]:
        if key in seen:
            continue
        seen.add(key)
        violation(res, key + (":wrapped-step" if "step" in key and st.get("placements_wrapped") else ""), msg,
                  {"top": text, "options": desc["options"]})
    return res
