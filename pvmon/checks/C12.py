"""C12 - sequence inputs produce exactly the specified residue graph."""
import json
import os
from pathlib import Path

from ..core import new_result, bump, violation, sig_of, note

PID = "C12"
LEVEL = "exploration"
RULE = ("seeded sequences over the DNA / RNA / protein alphabets and arbitrary residue names, lengths 1-200, every line "
        "breaking: written as -seq lists, .txt, .fasta, .ig (linear and circular) files and read by the real "
        "MetaMolecule constructors; gen_seq specifications (1-5 macros with levels 1-4 x branching 1-3, residue "
        "probabilities 1, connect records, terminal renamings, labels) run through the real gen_seq and the written "
        "JSON is read back with MetaMolecule.from_sequence_file. The expected graph is built by an independent "
        "builder (own one-letter tables, 5'/3' rule, numbering from 1, linear edges, tree shape parent(k) = (k-1)//b, "
        "connects, degree-1 renaming, labels). non-trivial = input with >= 2 residues; distinct = hash(input text)"
        ' Later formats: .json graph files (any node keys / listing order, labelled edges, residue attributes), multi-record .fasta, RNA written with U, .ig titles ending in digits, cyclic peptides, gen_seq macros taken from .itp files, connect records naming the later block first.')
ASSUMPTIONS = [".txt files are single-space separated without blank lines; .ig titles are a line of their own (ending in digits or made of nucleotide letters included)",
               "DNA/RNA sequences have >= 2 residues (the statement does not say how a residue that is both 5' and 3' "
               "terminal is named); protein and .txt inputs start at 1 residue"]
CASE_TIMEOUT = 60
WALL = {"quick": 900, "thorough": 7200}
REQUIRED = {"graphs_compared": 2000, "fasta": 300, "ig": 300, "txt": 300, "seq_list": 200, "gen_seq_specs": 300,
            "circular": 60, "single_residue": 30, "json_round_trips": 300, "connect_records": 200, "termini_renamed": 100,
            "labels": 100, "letters_seen": 30, "json_labelled_edges": 300, "fasta_with_further_records": 50, "file_macro_uses": 100, "connect_records_later_block_first": 100, "fasta_with_empty_lines": 50, "no_trailing_newline": 200, "multi_edge_connect_records": 50}
DNA = {"A": "DA", "C": "DC", "G": "DG", "T": "DT"}
RNA = {"A": "A", "C": "C", "G": "G", "T": "U", "U": "U"}       # uracil is written U in RNA files (T is tolerated)
AA = {"G": "GLY", "A": "ALA", "V": "VAL", "C": "CYS", "P": "PRO", "L": "LEU", "I": "ILE", "M": "MET", "W": "TRP",
      "F": "PHE", "S": "SER", "T": "THR", "Y": "TYR", "N": "ASN", "Q": "GLN", "K": "LYS", "R": "ARG", "H": "HIS",
      "D": "ASP", "E": "GLU", "O": "HYP"}


def plan(tier, seed):
    n = 5000 if tier == "quick" else 60000
    return [["file", i] for i in range(n)] + [["genseq", i] for i in range(n // 5)] + [["seq", i] for i in range(n // 8)]


def setup():
    pass


def brk(rng, s):
    out, i = [], 0
    while i < len(s):
        k = rng.randint(1, max(1, len(s)))
        out.append(s[i:i + k])
        i += k
    return out


def graph_of(m):
    nodes = sorted(m.nodes, key=lambda n: m.nodes[n]["resid"])
    names = [m.nodes[n]["resname"] for n in nodes]
    resids = [m.nodes[n]["resid"] for n in nodes]
    edges = {frozenset((m.nodes[a]["resid"], m.nodes[b]["resid"])) for a, b in m.edges}
    labels = {frozenset((m.nodes[a]["resid"], m.nodes[b]["resid"])): dict(m.edges[(a, b)]) for a, b in m.edges if m.edges[(a, b)]}
    return names, resids, edges, labels


def compare(res, m, names, edges, labels, what, w, node_labels=None):
    gn, gr, ge, gl = graph_of(m)
    bump(res, "graphs_compared")
    n = len(names)
    if gr != list(range(1, n + 1)):
        violation(res, "numbering-wrong:" + what, "residue ids %s..., expected 1..%d" % (gr[:8], n), w)
        return
    if gn != names:
        k = next(i for i in range(min(len(gn), len(names))) if gn[i] != names[i]) if len(gn) == len(names) else -1
        pos = "first" if k == 0 else ("last" if k == len(names) - 1 else "inner")
        violation(res, "residue-names-wrong:%s:%s" % (what, pos), "residue %d is %r, expected %r (sequence length %d)" %
                  (k + 1, gn[k] if k >= 0 else None, names[k] if k >= 0 else None, n), w)
        return
    if ge != edges:
        violation(res, "edges-wrong:" + what, "edges differ: missing %s unexpected %s" %
                  (sorted(map(sorted, edges - ge))[:4], sorted(map(sorted, ge - edges))[:4]), w)
        return
    if gl != labels:
        violation(res, "edge-labels-wrong:" + what, "edge labels %s, expected %s" % (gl, labels), w)
    if node_labels is not None:
        for rid, lab in node_labels.items():
            node = [x for x in m.nodes if m.nodes[x]["resid"] == rid][0]
            for k, v in lab.items():
                if str(m.nodes[node].get(k)) != str(v):
                    violation(res, "node-label-wrong:" + what, "residue %d label %s is %r, expected %r" % (rid, k, m.nodes[node].get(k), v), w)
                    return


def run_case(cid, rng, workdir):
    res = new_result()
    from polyply.src.meta_molecule import MetaMolecule
    if cid[0] == "genseq":
        return run_genseq(cid, rng, workdir, res)
    if cid[0] == "seq":
        return run_seq(cid, rng, workdir, res)
    kind = rng.choice(["DNA", "RNA", "PROTEIN"])
    fmt = rng.choice(["fasta", "ig", "txt", "json"])
    if fmt == "json":
        return run_json(cid, rng, workdir, res)
    n = rng.choice([1, 2, 3]) if rng.random() < 0.15 else rng.randint(2, 60 if rng.random() < 0.9 else 200)
    if kind != "PROTEIN" and fmt != "txt":
        n = max(n, 2)
    alpha = {"DNA": "ACGT", "RNA": "ACGTU", "PROTEIN": "".join(AA)}[kind]
    seq = "".join(rng.choice(alpha) for _ in range(n))
    for c in seq:
        note(res, "letters_seen", kind[0] + c)
    circ = fmt == "ig" and n >= 3 and rng.random() < 0.4          # cyclic peptides included
    tab = {"DNA": DNA, "RNA": RNA, "PROTEIN": AA}[kind]
    names = [tab[c] for c in seq]
    if kind != "PROTEIN" and not circ and fmt != "txt":
        names[0] += "5"
        names[-1] += "3"
    edges = {frozenset((i + 1, i + 2)) for i in range(n - 1)}
    labels = {}
    if fmt == "txt":
        # arbitrary residue names, single-space separated, any line breaking, no blank lines
        if rng.random() < 0.5:
            names = [rng.choice(["PEO", "PS", "P3HT", "A", "B12", "OHter"]) for _ in range(n)]
        toks, lines, i = names, [], 0
        while i < len(toks):
            k = rng.randint(1, len(toks))
            lines.append(" ".join(toks[i:i + k]))
            i += k
        text = "\n".join(lines) + "\n"
        p = Path(workdir) / "s.txt"
    elif fmt == "fasta":
        head = ">%s %s" % (kind, rng.choice(["sample", "chain X", "test sequence 42"]))
        parts = brk(rng, seq)
        if len(parts) > 1 and rng.random() < 0.3:
            parts.insert(rng.randrange(1, len(parts)), "")          # an empty line between two lines of the sequence
            bump(res, "fasta_with_empty_lines")
        text = head + "\n" + "\n".join(parts) + "\n"
        if rng.random() < 0.25:
            # further records: only the first sequence of the file is the input
            for _ in range(rng.randint(1, 2)):
                other = "".join(rng.choice(alpha) for _ in range(rng.randint(1, 12)))
                text += ">%s second chain\n" % kind + "\n".join(brk(rng, other)) + "\n"
            bump(res, "fasta_with_further_records")
        p = Path(workdir) / "s.fasta"
    else:
        lines = brk(rng, seq)
        lines[-1] += "2" if circ else "1"
        comments = ["; a %s sequence" % kind]
        if rng.random() < 0.3:
            comments.append("; second comment line")
        text = "\n".join(comments) + "\n" + rng.choice(["title", "my title x", "seq-0", "SEQ1", "strand 2", "chr12", "GATA", "CAT", "TATA", "A"]) + "\n" + "\n".join(lines) + "\n"
        p = Path(workdir) / "s.ig"
        if circ:
            edges = edges | {frozenset((1, n))}
            labels = {frozenset((1, n)): {"linktype": "circle"}}
            bump(res, "circular")
    if rng.random() < 0.3:
        text = text.rstrip("\n")          # no newline at the end of the file
        bump(res, "no_trailing_newline")
    p.write_text(text)
    bump(res, fmt)
    if n == 1:
        bump(res, "single_residue")
    res["sig"] = sig_of([fmt, text])
    res["sample"] = {"format": fmt, "kind": kind, "length": n, "circular": circ, "text": text[:200]}
    res["nontrivial"] = n >= 2
    w = {"file": p.name, "text": text}
    try:
        m = MetaMolecule.from_sequence_file(None, p, "t")
    except Exception as err:      # noqa
        if type(err).__name__ == "CaseTimeout":
            raise
        violation(res, "valid-sequence-rejected:%s:%s" % (fmt, type(err).__name__), "%s: %s" % (type(err).__name__, str(err)[:150]), w)
        return res
    compare(res, m, names, edges, labels, fmt + (":circular" if circ else "") + ":" + kind, w)
    return res


def run_json(cid, rng, workdir, res):
    """a residue graph file: residues with ids 1..n listed in any order under any node keys, edges with and
    without labels, extra residue attributes"""
    from polyply.src.meta_molecule import MetaMolecule
    from ..gen import resgraph as RG
    n = rng.choice([1, 2, 3]) if rng.random() < 0.15 else rng.randint(2, 40)
    keys = list(range(n))
    mode = rng.choice(["0..n-1", "shifted", "permuted"])
    if mode == "shifted":
        keys = [k + 7 for k in keys]
    elif mode == "permuted":
        rng.shuffle(keys)
    nodes = [{"key": keys[i], "resname": rng.choice(["PEO", "PS", "A", "B12", "OHter"]), "resid": i + 1} for i in range(n)]
    node_labels = {}
    for i, nd in enumerate(nodes):
        if rng.random() < 0.2:
            nd["chiral"] = rng.choice(["R", "S"])
            node_labels[i + 1] = {"chiral": nd["chiral"]}
    pairs = {frozenset((i, i + 1)) for i in range(n - 1)} if rng.random() < 0.5 else \
        {frozenset((rng.randrange(i), i)) for i in range(1, n)}
    if n >= 4 and rng.random() < 0.4:
        pairs.add(frozenset(rng.sample(range(n), 2)))
    edges, labels, gedges = set(), {}, []
    for pr in sorted(pairs, key=sorted):
        a, b = sorted(pr)
        lab = rng.choice([None, None, "a", "circle", "x1"])
        gedges.append((keys[a], keys[b], lab))
        edges.add(frozenset((a + 1, b + 1)))
        if lab:
            labels[frozenset((a + 1, b + 1))] = {"linktype": lab}
    order = list(range(n))
    rng.shuffle(order)
    p = Path(workdir) / "s.json"
    RG.to_json({"nodes": nodes, "edges": gedges}, str(p), order=order, flip=[rng.random() < 0.5 for _ in gedges])
    text = p.read_text()
    bump(res, "json")
    bump(res, "json_labelled_edges", len(labels))
    res["sig"] = sig_of(["json", text])
    res["sample"] = {"format": "json", "length": n, "node_keys": mode, "labelled_edges": len(labels)}
    res["nontrivial"] = n >= 2
    w = {"file": p.name, "text": text[:3000]}
    try:
        m = MetaMolecule.from_sequence_file(None, p, "t")
    except Exception as err:      # noqa
        if type(err).__name__ == "CaseTimeout":
            raise
        violation(res, "valid-sequence-rejected:json:%s" % type(err).__name__, "%s: %s" % (type(err).__name__, str(err)[:150]), w)
        return res
    compare(res, m, [nd["resname"] for nd in nodes], edges, labels, "json:" + mode, w, node_labels=node_labels)
    return res


def run_seq(cid, rng, workdir, res):
    """-seq list of name:count"""
    from polyply.src.meta_molecule import MetaMolecule
    from polyply.src.gen_itp import split_seq_string
    items = [(rng.choice(["PEO", "PS", "OHter", "X1"]), rng.randint(1, 9)) for _ in range(rng.randint(1, 5))]
    spec = ["%s:%d" % it for it in items]
    names = [nm for nm, c in items for _ in range(c)]
    n = len(names)
    bump(res, "seq_list")
    res["sig"] = sig_of(spec)
    res["sample"] = {"format": "-seq", "spec": spec}
    res["nontrivial"] = n >= 2
    m = MetaMolecule.from_monomer_seq_linear(force_field=None, monomers=split_seq_string(spec), mol_name="t")
    compare(res, m, names, {frozenset((i + 1, i + 2)) for i in range(n - 1)}, {}, "seq-list", {"spec": spec})
    return res


def run_genseq(cid, rng, workdir, res):
    from polyply import gen_seq
    from polyply.src.meta_molecule import MetaMolecule
    nmac = rng.randint(1, 4)
    macros = {}
    mstrings = []
    for k in range(nmac):
        tag = "ABCD"[k]
        levels = rng.randint(1, 4)
        b = rng.randint(1, 3)
        rn = rng.choice(["PEO", "PS", "NR3", "P3HT"])
        macros[tag] = (levels, b, rn)
        mstrings.append("%s:%d:%d:%s-1.0" % (tag, levels, b, rn))
    # a macro taken from a molecule definition in a file (-from_file tag:molecule -f file): its residue graph
    file_macros = {}
    kw_file = {}
    pairs_in_file_macro = False
    if rng.random() < 0.4:
        tag = "F"
        k_ = rng.randint(1, 6)
        rnames = [rng.choice(["PEO", "PS", "GLY", "X1"]) for _ in range(k_)]
        redges = [(i, i + 1) for i in range(k_ - 1)] if rng.random() < 0.5 else [(rng.randrange(i), i) for i in range(1, k_)]
        if k_ >= 4 and rng.random() < 0.3:
            extra_e = tuple(sorted(rng.sample(range(k_), 2)))
            if extra_e not in redges:
                redges.append(extra_e)
        L, bonds_, firsts, idx = ["[ moleculetype ]", "FRG 1", "[ atoms ]"], [], [], 1
        for ri, rn_ in enumerate(rnames):
            firsts.append(idx)
            na_ = rng.randint(1, 2)
            for j in range(na_):
                L.append("%d P1 %d %s A%d %d 0.0 72.0" % (idx + j, ri + 1, rn_, j, idx + j))
            if na_ == 2:
                bonds_.append("%d %d 1 0.3 1000" % (idx, idx + 1))
            idx += na_
        for a_, b_ in redges:
            bonds_.append("%d %d 1 0.35 1000" % (firsts[a_] + rng.randrange(1), firsts[b_]))
        L += ["[ bonds ]"] + bonds_
        nonadj = [(a_, b_) for a_ in range(k_) for b_ in range(a_ + 1, k_) if (a_, b_) not in redges and (b_, a_) not in redges]
        if nonadj and rng.random() < 0.25:
            # a 1-4 pair / an exclusion between two residues that are not bonded: no edge of the residue graph
            a_, b_ = rng.choice(nonadj)
            L += [rng.choice(["[ pairs ]", "[ exclusions ]"]), "%d %d%s" % (firsts[a_], firsts[b_], " 1" if L[-1] == "" else "")]
            if L[-2] == "[ pairs ]":
                L[-1] += " 1"
            pairs_in_file_macro = True
            bump(res, "file_macros_with_pairs_or_exclusions_between_unbonded_residues")
        (Path(workdir) / "frag.itp").write_text("\n".join(L) + "\n")
        file_macros[tag] = (rnames, redges)
        kw_file = {"from_file": ["%s:FRG" % tag], "inpath": [Path(workdir) / "frag.itp"]}
        bump(res, "file_macros")
    seqtags = [rng.choice(sorted(macros) + sorted(file_macros) * 2) for _ in range(rng.randint(1, 5))]
    # expected assembled graph
    names, edges, seqid, first = [], set(), [], []
    for si, tag in enumerate(seqtags):
        base = len(names)
        if tag in file_macros:
            rnames, redges = file_macros[tag]
            first.append((base, len(rnames)))
            for rn_ in rnames:
                names.append(rn_)
                seqid.append(si)
            for a_, b_ in redges:
                edges.add(frozenset((base + a_ + 1, base + b_ + 1)))
            bump(res, "file_macro_uses")
            continue
        levels, b, rn = macros[tag]
        nn = sum(b ** l for l in range(levels))
        first.append((base, nn))
        for k in range(nn):
            names.append(rn)
            seqid.append(si)
            if k:
                edges.add(frozenset((base + (k - 1) // b + 1, base + k + 1)))
    connects = []
    for si in range(len(seqtags) - 1):
        if rng.random() < 0.85:
            # one connect record may list several edges
            pairs = []
            for _ in range(rng.choice([1, 1, 2, 3])):
                a = rng.randrange(first[si][1])
                c = rng.randrange(first[si + 1][1])
                if (a, c) not in pairs:
                    pairs.append((a, c))
            if rng.random() < 0.3:
                # the later block named first: the residue numbers follow the order of the block numbers
                connects.append("%d:%d:%s" % (si + 1, si, ",".join("%d-%d" % (x[1], x[0]) for x in pairs)))
                bump(res, "connect_records_later_block_first")
            else:
                connects.append("%d:%d:%s" % (si, si + 1, ",".join("%d-%d" % x for x in pairs)))
            for a, c in pairs:
                edges.add(frozenset((first[si][0] + a + 1, first[si + 1][0] + c + 1)))
            bump(res, "connect_records")
            if len(pairs) > 1:
                bump(res, "multi_edge_connect_records")
    if len(seqtags) >= 3 and rng.random() < 0.3:
        a = rng.randrange(first[0][1])
        c = rng.randrange(first[-1][1])
        e = frozenset((first[0][0] + a + 1, first[-1][0] + c + 1))
        if len(e) == 2 and e not in edges:
            connects.append("%d:%d:%d-%d" % (0, len(seqtags) - 1, a, c))
            edges.add(e)
            bump(res, "connect_records")
    # termini: degree-1 residues of the named block in the assembled graph
    deg = {}
    for e in edges:
        for x in e:
            deg[x] = deg.get(x, 0) + 1
    mods = []
    for si in range(len(seqtags)):
        if rng.random() < 0.4:
            newname = rng.choice(["OHter", "CH3ter"])
            mods.append("%d:%s" % (si, newname))
            for k in range(first[si][1]):
                rid = first[si][0] + k + 1
                if deg.get(rid, 0) == 1:
                    names[rid - 1] = newname
                    bump(res, "termini_renamed")
    tags = []
    node_labels = {}
    for si in range(len(seqtags)):
        if rng.random() < 0.35:
            val = rng.choice(["R", "S"])
            tags.append("%d:chiral:%s-1.0" % (si, val))
            for k in range(first[si][1]):
                node_labels.setdefault(first[si][0] + k + 1, {})["chiral"] = val
            bump(res, "labels")
    out = Path(workdir) / "seq.json"
    spec = {"seq": seqtags, "macro_strings": mstrings, "connects": connects, "modifications": mods, "tags": tags,
            "file_macros": {k: [v[0], v[1]] for k, v in file_macros.items()}}
    bump(res, "gen_seq_specs")
    res["sig"] = sig_of(spec)
    res["sample"] = spec
    res["nontrivial"] = len(names) >= 2
    w = {"spec": spec}
    try:
        gen_seq(name="t", outpath=out, seq=seqtags, macro_strings=mstrings, connects=connects, modifications=mods, tags=tags,
                **kw_file)
    except Exception as err:      # noqa
        if type(err).__name__ == "CaseTimeout":
            raise
        violation(res, "valid-spec-rejected:%s" % type(err).__name__, "%s: %s" % (type(err).__name__, str(err)[:150]), w)
        return res
    # the written JSON, read independently
    data = json.load(open(out))
    w["json"] = json.dumps(data)[:1500]
    m = MetaMolecule.from_sequence_file(None, out, "t")
    bump(res, "json_round_trips")
    if pairs_in_file_macro and any(t in file_macros for t in seqtags):
        # judged on the edges alone: which residues count as chain ends (terminal names) follows from them
        _gn, _gr, ge_, _gl = graph_of(m)
        if ge_ != edges:
            bump(res, "graphs_compared")
            violation(res, "edges-wrong:gen_seq:file-macro-with-pairs-or-exclusions", "edges differ: missing %s unexpected %s" %
                      (sorted(map(sorted, edges - ge_))[:4], sorted(map(sorted, ge_ - edges))[:4]), w)
            return res
    compare(res, m, names, edges, {}, "gen_seq", w, node_labels=node_labels)
    return res
