"""Shared gen_coords harness: monitors attached to the real classes, one context per run."""
import itertools
import logging
import os
from pathlib import Path

import numpy as np

from .. import attach
from ..monitors.pipeline import LogCapture

CTX = {}
_attached = False


def new_ctx(**kw):
    CTX.clear()
    CTX.update({"placements": [], "starts": [], "viol": [], "stats": {}, "build": None, "engine": None,
                "topology": None, "removes": 0, "adds": 0, "rejected_trials": 0, "nonfinite": [],
                "attempts": {}, "failed_attempts": [], "angles": [], "adversarial": None, "e2e": [],
                "fail_attempts_left": 0, "supplied": {}, "after_failed": [], "templates_before": None})
    CTX.update(kw)
    return CTX


def stat(name, n=1):
    s = CTX["stats"]
    if name.startswith("max_"):
        s[name] = max(s.get(name, n), n)
    elif name.startswith("min_"):
        s[name] = min(s.get(name, n), n)
    else:
        s[name] = s.get(name, 0) + n


def minimg(d, box):
    return d - box * np.round(d / box)


def attach_all():
    global _attached
    if _attached:
        return
    _attached = True
    import polyply.src.random_walk as rw
    import polyply.src.build_system as bs
    import polyply.src.backmap as bm
    import polyply.src.gen_coords as gc
    from polyply.src.nonbond_engine import NonBondEngine
    from polyply.src.graph_utils import neighborhood

    def mk_add(orig):
        def add_positions(self, point, mol_idx, node_key, *a, **k):
            start = k.get("start", a[0] if a else True)      # only read by the monitor; the call is passed on as it came
            if CTX:
                CTX["adds"] += 1
                if not np.all(np.isfinite(point)):
                    CTX["nonfinite"].append(("add_positions", mol_idx, node_key))
            out = orig(self, point, mol_idx, node_key, *a, **k)
            if CTX and start:
                CTX["starts"].append((mol_idx, node_key, np.array(point, dtype=float)))
                check_placement(self, CTX.get("walk"), mol_idx, node_key, np.array(point, dtype=float), None, None, True)
            return out
        return add_positions

    def mk_rem(orig):
        def remove_positions(self, mol_idx, node_keys):
            if CTX:
                CTX["removes"] += 1
            return orig(self, mol_idx, node_keys)
        return remove_positions

    def mk_upd(orig):
        def update_positions(self, vector_bundle, current_node, prev_node):
            if CTX:
                CTX["walk"] = self
                sched = CTX.get("step_schedule")
                if sched is not None and not next(sched, True):
                    # injected fault: this placement step fails (what exhausting the trial vectors does)
                    CTX["stats"]["injected_step_failures"] = CTX["stats"].get("injected_step_failures", 0) + 1
                    return False
            ok = orig(self, vector_bundle, current_node, prev_node)
            if CTX and ok:
                eng = self.nonbond_matrix
                p = np.array(eng.get_point(self.mol_idx, current_node), dtype=float)
                q = np.array(eng.get_point(self.mol_idx, prev_node), dtype=float)
                CTX["placements"].append((self.mol_idx, current_node, prev_node, p, q))
                check_placement(eng, self, self.mol_idx, current_node, p, prev_node, q, False)
            return ok
        return update_positions

    def mk_overlap(orig):
        def _is_overlap(self, point, node, *a, **k):          # defaults are the program's, not the wrapper's
            r = orig(self, point, node, *a, **k)
            if CTX and r:
                CTX["rejected_trials"] += 1
            return r
        return _is_overlap

    def mk_runmol(orig):
        def run_molecule(self, meta_molecule):
            if not CTX:
                return orig(self, meta_molecule)
            CTX["walk"] = self
            mi = self.mol_idx
            CTX["attempts"][mi] = CTX["attempts"].get(mi, 0) + 1
            if CTX["fail_attempts_left"] > 0 and any(meta_molecule.nodes[n].get("build", True) for n in meta_molecule.nodes):
                # injected fault: this whole attempt fails after placing what it placed (scripted, like C17)
                CTX["fail_attempts_left"] -= 1
                out = orig(self, meta_molecule)
                self.success = False
                CTX["failed_attempts"].append((mi, "injected"))
                return out
            out = orig(self, meta_molecule)
            if not self.success:
                CTX["failed_attempts"].append((mi, "natural"))
            return out
        return run_molecule

    def mk_handle(orig):
        def _handle_random_walk(self, molecule, mol_idx, vector_sphere):
            return orig(self, molecule, mol_idx, vector_sphere)
        return _handle_random_walk

    def mk_runsys(orig):
        def run_system(self, molecules):
            if CTX:
                CTX["build"] = self
                CTX["topology"] = self.topology
                CTX["box"] = np.array(self.box, dtype=float)
                # supplied coordinates (shadow taken before anything is built)
                sup = {}
                for mi, mol in enumerate(self.topology.molecules):
                    for nd in mol.nodes:
                        if "position" in mol.nodes[nd]:
                            sup[(mi, nd)] = np.array(mol.nodes[nd]["position"], dtype=float)
                CTX["supplied"] = sup
            out = orig(self, molecules)
            if CTX:
                CTX["engine"] = self.nonbond_matrix
            return out
        return run_system

    def mk_remove_after(orig):
        # after every failed attempt (the remove_positions call in _handle_random_walk) the supplied residues must
        # still be in the engine at their supplied coordinates
        def remove_positions(self, mol_idx, node_keys):
            out = orig(self, mol_idx, node_keys)
            if CTX and CTX.get("supplied"):
                for (mi, nd), p in CTX["supplied"].items():
                    if (mi, nd) not in self.nodes_to_gndx:
                        continue
                    q = self.get_point(mi, nd)
                    CTX["stats"]["supplied_checks_after_removal"] = CTX["stats"].get("supplied_checks_after_removal", 0) + 1
                    if not np.array_equal(q, p):
                        CTX["after_failed"].append((mi, nd, p.tolist(), np.asarray(q).tolist()))
            return out
        return remove_positions

    attach.wrap_method(NonBondEngine, "add_positions", mk_add)
    attach.wrap_method(NonBondEngine, "remove_positions", mk_rem)
    attach.wrap_method(NonBondEngine, "remove_positions", mk_remove_after)
    attach.wrap_method(rw.RandomWalk, "update_positions", mk_upd)
    attach.wrap_method(rw.RandomWalk, "_is_overlap", mk_overlap)
    attach.wrap_method(rw.RandomWalk, "run_molecule", mk_runmol)
    attach.wrap_method(bs.BuildSystem, "run_system", mk_runsys)

    # optimiser as seen from backmap: record angle triples; optionally substitute adversarial ones
    real_scipy = bm.scipy
    real_opt = bm.scipy.optimize
    real_min = real_opt.minimize

    def pv_minimize(fun, x0, *a, **k):
        r = real_min(fun, x0, *a, **k)
        if CTX:
            adv = CTX.get("adversarial")
            if adv is not None:
                r["x"] = np.array(adv(r["x"]), dtype=float)
            CTX["angles"].append(tuple(float(x) for x in r["x"]))
        return r

    class _OptProxy:
        def __getattr__(self, name):
            if name == "minimize":
                return pv_minimize
            return getattr(real_opt, name)

    class _ScipyProxy:
        optimize = _OptProxy()

        def __getattr__(self, name):
            return getattr(real_scipy, name)
    bm.scipy = _ScipyProxy()

    # end-to-end distance sampling
    import polyply.src.persistence as pers
    if hasattr(pers, "sample_end_to_end_distances"):
        def mk_e2e(orig):
            def sample_end_to_end_distances(topology, nonbond_matrix, *a, **k):
                out = orig(topology, nonbond_matrix, *a, **k)
                if CTX:
                    CTX["e2e_called"] = True
                return out
            return sample_end_to_end_distances
        attach.wrap_function(pers, "sample_end_to_end_distances", mk_e2e)


def check_placement(eng, walk, mol_idx, node, p, prev, q, is_start):
    """C05 online invariant, brute force over the engine's position table with explicit image enumeration"""
    box = np.array(eng.boxsize, dtype=float)
    V = CTX["viol"]
    stat("placements_checked")
    if not (np.all(p >= 0) and np.all(p <= box)):
        V.append(("outside-box", "residue (%d,%s) placed at %s outside the box %s" % (mol_idx, node, p.tolist(), box.tolist())))
    if is_start:
        stat("start_placements")
        if np.any(p >= box):
            V.append(("start-on-upper-face", "start position %s lies on the upper face of the periodic cell %s (the cell is "
                      "[0, L): the neighbour search refuses such a point)" % (p.tolist(), box.tolist())))
        grid = CTX["build"].box_grid if CTX.get("build") is not None else None
        if grid is not None and walk is not None and np.array_equal(p, np.asarray(walk.start, dtype=float)):
            d = np.abs(np.asarray(grid) - p).sum(axis=1).min()
            if d > 1e-12:
                V.append(("start-not-on-grid", "start position %s is not a point of the start grid" % p.tolist()))
            stat("start_on_grid_checked")
    if prev is not None and walk is not None:
        sig = eng.get_interaction(mol_idx, mol_idx, prev, node)[0]
        # sizes from the captured topology volumes (independent of the engine's table)
        topo = CTX.get("topology")
        if topo is not None:
            mol = topo.molecules[mol_idx]
            ta = mol.nodes[prev].get("template", mol.nodes[prev]["resname"])
            tb = mol.nodes[node].get("template", mol.nodes[node]["resname"])
            sig2 = (topo.volumes[ta] + topo.volumes[tb]) / 2.0
            if abs(sig2 - sig) > 1e-9:
                V.append(("pair-size-wrong", "engine pair size %r, mean of residue sizes %r" % (sig, sig2)))
            sig = sig2
        fudge = CTX.get("requested", {}).get("step_fudge", walk.step_fudge)
        step = fudge * sig
        d = p - q
        ok = False
        for nvec in itertools.product((-1, 0, 1), repeat=3):
            if abs(np.linalg.norm(d + np.array(nvec) * box) - step) <= 1e-9 * max(1.0, step):
                ok = True
                break
        mi = np.linalg.norm(minimg(d, box))
        if step > 0.5 * float(np.min(box)):
            # a step longer than half the box: the nearest image of the parent is not the one it was grown from
            stat("steps_longer_than_half_box")
            mi = step if ok else mi
        if not ok or abs(mi - step) > 1e-9 * max(1.0, step):
            V.append(("step-length-wrong", "residue %s grown from %s: minimum-image distance %r, step length %r (factor %r x size %r)" %
                      (node, prev, mi, step, fudge, sig)))
        if np.linalg.norm(d) > step * (1 + 1e-9):
            stat("placements_wrapped")
    # neighbours
    if walk is None:
        return
    from polyply.src.graph_utils import neighborhood
    g = eng.nodes_to_gndx[(mol_idx, node)]
    try:
        excl = {eng.nodes_to_gndx[(mol_idx, n)] for n in neighborhood(walk.molecule, node, 1)}
    except Exception:
        excl = set()
    F = np.zeros(3)
    fin = np.where(np.isfinite(eng.positions[:, 0]))[0]
    my_t = eng.atypes[g]
    for gi in fin:
        if gi == g:
            continue
        v = minimg(p - eng.positions[gi], box)
        dist = float(np.linalg.norm(v))
        stat("min_closest_approach", dist)
        if dist < 0.1 - 1e-12:
            V.append(("closer-than-0.1nm", "residue (%d,%s) accepted %.4f nm from another positioned residue (index %d)" %
                      (mol_idx, node, dist, gi)))
        if gi in excl or dist > eng.cut_off:
            continue
        sig, eps = eng.interaction_matrix[frozenset([my_t, eng.atypes[gi]])]
        F += 24 * eps / dist * (2 * (sig / dist) ** 12 - (sig / dist) ** 6) * v / dist
    max_force = CTX.get("requested", {}).get("max_force", walk.max_force)
    ratio = float(np.linalg.norm(F) / max_force)
    stat("max_force_ratio", ratio)
    if np.linalg.norm(F) > 0:
        stat("placements_with_force")
    if ratio > 1 + 1e-6:
        V.append(("force-above-limit", "residue (%d,%s) accepted with soft-sphere force %.4g > max force %.4g" %
                  (mol_idx, node, np.linalg.norm(F), max_force)))


def run_gen_coords(ctx_kw=None, **kwargs):
    """run the real gen_coords with all monitors; returns (status dict, CTX snapshot reference)"""
    from polyply import gen_coords
    from vermouth.file_writer import DeferredFileWriter
    new_ctx(**(ctx_kw or {}))
    # what the caller asked for (the defaults of the program where nothing is said): the limits are the user's,
    # not whatever value reaches the random walk
    import inspect
    sigp = inspect.signature(gen_coords).parameters
    CTX["requested"] = {k: kwargs.get(k, sigp[k].default) for k in ("max_force", "step_fudge") if k in sigp}
    handler = LogCapture()
    logger = logging.getLogger("polyply")
    logger.addHandler(handler)
    old = logger.level
    logger.setLevel(logging.INFO)
    res = {"status": "ok", "error": None}
    try:
        gen_coords(**kwargs)
    except BaseException as err:     # noqa
        if type(err).__name__ in ("CaseTimeout", "KeyboardInterrupt"):
            logger.removeHandler(handler)
            raise
        res["status"] = "raised"
        res["exc_type"] = type(err).__name__
        res["error"] = "%s: %s" % (type(err).__name__, str(err)[:300])
        import traceback
        res["tb"] = traceback.format_exc()[-1200:]
        try:
            DeferredFileWriter().close()
        except Exception:
            pass
    finally:
        logger.removeHandler(handler)
        logger.setLevel(old)
    res["log"] = [(lv, msg) for lv, msg, _, _ in handler.records]
    return res, CTX
