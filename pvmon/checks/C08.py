"""C08 - a topology is read as its preprocessed, flattened equivalent."""
import os
import shutil

from ..core import new_result, bump, violation, sig_of, note

PID = "C08"
LEVEL = "exploration"
RULE = ("seeded include trees (depth <= 3, nested directories, repeated includes of type-only files, conditional "
        "includes with #ifdef/#ifndef/#else over 3 macros defined outside conditionals at random earlier points, "
        "conditional #error, type sections inside conditionals, shuffled section order, [molecules] with repeated "
        "names and counts) are read with Topology.from_gmx_topfile twice: as a tree and as the single file produced by "
        "an independent textual flattener (pvmon, 60 lines: tracks defines, evaluates conditions around #include and "
        "#error, resolves paths relative to the including file). Snapshots (defaults, atom types, type tables with "
        "conditional meta, nonbond params, defines, blocks with atoms and interactions, molecule list, index by name) "
        "must be equal; a third reading of a copy with comments / blank lines / indentation / tabs added must be equal "
        "too; instances must be independent copies; #error must abort exactly when active. A separate stratum puts a "
        "conditional include after a moleculetype has started in the same file. non-trivial = tree with >= 1 "
        "conditional include or #error and >= 2 files; distinct = hash(all file texts)"
        ' Later: the topology reached through a symbolic link whose target lives elsewhere.')
ASSUMPTIONS = ["#define only outside conditionals, except the include-guard idiom of the guard stratum; included files start with a section header and the includer opens a new "
               "section after an include (GROMACS files are written that way; polyply parses each file with a fresh "
               "section state)",
               "[ system ] only in the top file, [ molecules ] lines there or (stratum mols_inc) continued in an included file that opens the section again; conditionals are not nested and do not span files",
               "main stratum: all pragmas of a file precede its first [ moleculetype ]"]
CASE_TIMEOUT = 60
WALL = {"quick": 900, "thorough": 7200}
REQUIRED = {"trees_compared": 400, "conditional_includes": 400, "else_branches": 100, "inactive_includes": 150,
            "active_errors": 15, "inactive_errors": 60, "nested_includes": 200, "repeated_names": 100,
            "whitespace_variants": 400, "independence_checks": 100, "conditional_type_entries": 100, "max_depth": 3,
            "after_moleculetype_cases": 20, "relative_path_readings": 400,
            "repeated_molecule_includes": 30, "molecule_lists_continued_in_an_included_file": 20, "include_guard_cases": 20, "readings_through_a_symbolic_link": 100, "readings_with_absolute_include_paths": 100}
TYPES = ["a", "b", "c"]
MACROS = ["FOO", "BAR", "BAZ"]


def plan(tier, seed):
    n = 2000 if tier == "quick" else 20000
    return [["main", i] for i in range(n)] + [["after_mol", i] for i in range(n // 10)] + \
        [["mols_inc", i] for i in range(n // 20)] + [["guard", i] for i in range(n // 20)]


def setup():
    pass


# ----------------------------------------------------------------------------- generator
class Tree:
    def __init__(self, rng):
        self.rng = rng
        self.files = {}
        self.nf = 0
        self.molnames = []
        self.type_files = []
        self.stats = {"cond": 0, "else": 0, "nested": 0, "errors": 0, "depth": 0, "cond_types": 0, "repeated_mol_includes": 0}

    def unit_types(self):
        rng = self.rng
        k = rng.choice(["atomtypes", "bondtypes", "angletypes", "nonbond_params", "dihedraltypes"])
        if k == "atomtypes":
            return ["[ atomtypes ]"] + ["%s%d 12.0 0.0 A %.3f %.3f" % (t, rng.randint(0, 3), rng.random(), rng.random())
                                        for t in rng.sample(TYPES, 2)]
        if k == "bondtypes":
            return ["[ bondtypes ]"] + ["%s %s 1 %.3f %d" % (rng.choice(TYPES), rng.choice(TYPES), rng.random(), rng.randint(100, 900))
                                        for _ in range(2)]
        if k == "angletypes":
            return ["[ angletypes ]", "%s %s %s 1 %d %d" % (rng.choice(TYPES), rng.choice(TYPES), rng.choice(TYPES),
                                                          rng.randint(90, 180), rng.randint(10, 90))]
        if k == "dihedraltypes":
            return ["[ dihedraltypes ]", "%s %s %s %s 9 %d %.2f 1" % (rng.choice(TYPES), rng.choice(TYPES), rng.choice(TYPES),
                                                                    rng.choice(TYPES), rng.randint(0, 180), rng.random())]
        return ["[ nonbond_params ]", "%s %s 1 %.4f %.4f" % (rng.choice(TYPES), rng.choice(TYPES), rng.random(), rng.random())]

    def unit_cond_types(self):
        """type entries inside a conditional (they are kept with their condition)"""
        rng = self.rng
        self.stats["cond_types"] += 1
        tag = rng.choice(MACROS)
        cond = rng.choice(["#ifdef", "#ifndef"])
        body = ["%s %s 1 %.3f %d" % (rng.choice(TYPES), rng.choice(TYPES), rng.random(), rng.randint(100, 900))]
        out = ["[ bondtypes ]", "%s %s" % (cond, tag)] + body
        if rng.random() < 0.4:
            out += ["#else", "%s %s 1 %.3f %d" % (rng.choice(TYPES), rng.choice(TYPES), rng.random(), rng.randint(100, 900))]
        return out + ["#endif"]

    def unit_mol(self, name):
        rng = self.rng
        n = rng.randint(1, 4)
        L = ["[ moleculetype ]", "%s 1" % name, "[ atoms ]"] + \
            ["%d %s %d R%d A%d %d 0.0" % (i + 1, rng.choice(TYPES), i // 2 + 1, i // 2 % 2, i, i + 1) for i in range(n)]
        if n > 1:
            L += ["[ bonds ]"] + ["%d %d 1 0.3 100" % (i + 1, i + 2) for i in range(n - 1)]
            if rng.random() < 0.3:
                L += ["#ifdef FLEX", "%d %d 1 0.35 50" % (1, n), "#endif"]
        return L

    def make_file(self, depth, reldir, kind="types", under_cond=False):
        """kind 'types': type tables, defines, nested includes of type files (phase A of the flattened text);
        kind 'mols': molecule definitions and nested includes of molecule files only (phase B)"""
        rng = self.rng
        self.nf += 1
        self.stats["depth"] = max(self.stats["depth"], depth)
        name = "f%d.itp" % self.nf
        path = os.path.normpath(os.path.join(reldir, name))
        lines = []
        if kind == "types":
            for _ in range(rng.randint(1, 3)):
                c = rng.random()
                if c < 0.4:
                    lines += self.unit_types()
                elif c < 0.5:
                    lines += self.unit_cond_types()
                elif c < 0.62 and not under_cond:
                    lines.append("#define %s" % rng.choice(MACROS))
                elif c < 0.7:
                    lines.append("#define %s %s" % (rng.choice(["gb_1", "gb_2"]), " ".join("%.3f" % rng.random() for _ in range(2))))
                elif depth < 3:
                    self.stats["nested"] += 1
                    lines += self.include_block(depth, reldir, "types", under_cond)
                if rng.random() < 0.3:
                    lines.append("; a comment line")
            if not lines:
                lines = self.unit_types()
            self.type_files.append(path)
        else:
            # every pragma of a file precedes its first moleculetype
            if depth < 3 and rng.random() < 0.3:
                self.stats["nested"] += 1
                lines += self.include_block(depth, reldir, "mols", under_cond)
            for _ in range(rng.randint(1, 2)):
                mn = "M%d" % len(self.molnames)
                self.molnames.append(mn)
                lines += self.unit_mol(mn)
        self.files[path] = lines
        return path

    def include_block(self, depth, reldir, kind="types", under_cond=False):
        rng = self.rng
        sub = reldir if rng.random() < 0.5 else os.path.join(reldir, "d%d" % self.nf)
        c = rng.random()
        cond_here = c >= 0.35
        if kind == "types" and self.type_files and rng.random() < 0.15 and not cond_here and not under_cond:
            child = rng.choice(self.type_files)          # repeated include of a type-only file
        else:
            child = self.make_file(depth + 1, sub, kind, under_cond or cond_here)
        inc = '#include "%s"' % os.path.relpath(child, reldir)
        if not cond_here:
            return [inc]
        tag = rng.choice(MACROS)
        cond = rng.choice(["#ifdef", "#ifndef"])
        self.stats["cond"] += 1
        if c < 0.7:
            return ["%s %s" % (cond, tag), inc, "#endif"]
        self.stats["else"] += 1
        child2 = self.make_file(depth + 1, sub, kind, True)
        return ["%s %s" % (cond, tag), inc, "#else", '#include "%s"' % os.path.relpath(child2, reldir), "#endif"]

    def error_block(self, defined_now):
        rng = self.rng
        tag = rng.choice(MACROS)
        cond = rng.choice(["#ifdef", "#ifndef"])
        # mostly inactive
        active = (tag in defined_now) == (cond == "#ifdef")
        if active and rng.random() < 0.8:
            cond = "#ifndef" if cond == "#ifdef" else "#ifdef"
        self.stats["errors"] += 1
        return ["%s %s" % (cond, tag), "#error not supported", "#endif"]


def build(rng, after_mol=False, guard=False):
    g = Tree(rng)
    top = ["[ defaults ]", "1 %d no 1.0 1.0" % rng.choice([1, 2])]
    if guard:
        # the include-guard idiom: the macro is defined inside the conditional it guards, before the include
        sub = g.make_file(1, ".", kind="types", under_cond=True)
        top += ["#ifndef GUARD_FF", "#define GUARD_FF", '#include "%s"' % sub, "#endif"]
    # phase A: everything that is not a molecule definition
    for _ in range(rng.randint(2, 5)):
        c = rng.random()
        if c < 0.2:
            top.append("#define %s" % rng.choice(MACROS))
        elif c < 0.35:
            top += g.unit_types()
        elif c < 0.43:
            top += g.unit_cond_types()
        elif c < 0.5:
            top += g.error_block(set())
        else:
            top += g.include_block(0, ".", "types")
        if rng.random() < 0.2:
            top.append("; comment")
    # phase B: molecule definitions (inline or in include files, possibly behind conditionals)
    mol_incs = []
    for _ in range(rng.randint(0, 3)):
        blk = g.include_block(0, ".", "mols")
        top += blk
        if len(blk) == 1:
            mol_incs.append(blk[0])
    if mol_incs and rng.random() < 0.2:
        top.append(rng.choice(mol_incs))          # the same molecule file included a second time
        g.stats["repeated_mol_includes"] = 1
    for _ in range(rng.randint(0 if g.molnames else 1, 2)):
        mn = "M%d" % len(g.molnames)
        g.molnames.append(mn)
        top += g.unit_mol(mn)
    if after_mol:
        # the '#ifdef POSRES / #include' idiom: a conditional include placed after a moleculetype has started
        if not top[-1].startswith("#endif") or True:
            mn = "M%d" % len(g.molnames)
            g.molnames.append(mn)
            top += g.unit_mol(mn)
        sub = g.make_file(1, ".", kind=rng.choice(["types", "mols"]), under_cond=True)
        tag = rng.choice(MACROS)
        top += ["%s %s" % (rng.choice(["#ifdef", "#ifndef"]), tag), '#include "%s"' % sub, "#endif"]
    g.top_pre = top
    return g


# ----------------------------------------------------------------------------- independent flattener
class ErrorActive(Exception):
    pass


def flatten(files, topname="t.top"):
    """textual inlining; returns (lines, info). Raises ErrorActive when an #error is active."""
    defines = set()
    info = {"inactive_includes": 0, "active_includes": 0, "errors_inactive": 0, "seen_molnames": []}

    def rec(path):
        out = []
        cond = None
        base = os.path.dirname(path)
        in_mol = False
        for ln in files[os.path.normpath(path)]:
            s = ln.split(";")[0].strip()
            if s.startswith("[") and s.strip("[] \t") == "moleculetype":
                in_mol = "name"
            elif in_mol == "name" and s and not s.startswith("#"):
                info["seen_molnames"].append(s.split()[0])
                in_mol = True
            if s.startswith("#define"):
                if cond is None:
                    defines.add(s.split()[1])
                out.append(ln)
            elif s.startswith("#ifdef") or s.startswith("#ifndef"):
                c, tag = s.split()
                cond = (c == "#ifdef", tag)
                out.append(ln)
            elif s.startswith("#else"):
                cond = (not cond[0], cond[1])
                out.append(ln)
            elif s == "#endif":
                cond = None
                out.append(ln)
            elif s.startswith("#include"):
                active = cond is None or ((cond[1] in defines) == cond[0])
                if not active:
                    info["inactive_includes"] += 1
                    continue
                info["active_includes"] += 1
                child = os.path.join(base, s.split()[1].strip('"'))
                if cond is not None:
                    out.append("#endif")
                out += rec(child)
                if cond is not None:
                    out.append("%s %s" % ("#ifdef" if cond[0] else "#ifndef", cond[1]))
            elif s.startswith("#error"):
                active = cond is None or ((cond[1] in defines) == cond[0])
                if active:
                    raise ErrorActive(s)
                info["errors_inactive"] += 1
                out.append(ln)
            else:
                out.append(ln)
        return out
    lines = rec(topname)
    # drop empty conditional shells the inlining may have produced (#ifdef X / #endif with nothing between)
    cleaned = []
    for ln in lines:
        s = ln.strip()
        if s == "#endif" and cleaned and (cleaned[-1].strip().startswith("#ifdef") or cleaned[-1].strip().startswith("#ifndef")):
            cleaned.pop()
            continue
        if s.startswith("#else") and cleaned and (cleaned[-1].strip().startswith("#ifdef") or cleaned[-1].strip().startswith("#ifndef")):
            # '#ifdef X / #else' -> '#ifndef X'
            prev = cleaned.pop().split()
            cleaned.append("%s %s" % ("#ifndef" if prev[0] == "#ifdef" else "#ifdef", prev[1]))
            continue
        cleaned.append(ln)
    return cleaned, info


def write_tree(files, root, noise=None, rng=None):
    shutil.rmtree(root, ignore_errors=True)
    for p, lines in files.items():
        fp = os.path.join(root, p)
        os.makedirs(os.path.dirname(fp), exist_ok=True)
        if noise:
            out = []
            for ln in lines:
                if rng.random() < 0.2:
                    out.append(rng.choice(["", "   ", "; noise comment", "\t; another"]))
                s = ln
                if not s.startswith("#") or noise == "all":
                    s = rng.choice(["", " ", "   ", "\t"]) + s
                if not s.strip().startswith("#") and not s.strip().startswith("[") and rng.random() < 0.5:
                    s = s.replace(" ", rng.choice(["  ", "\t", "   "]))
                if not s.strip().startswith("#") and rng.random() < 0.3:
                    s = s + rng.choice([" ; trailing comment", "   ", " ;"])
                if s.strip().split(" ")[0] in ("#ifdef", "#ifndef", "#define") and rng.random() < 0.5:
                    # several blanks between the keyword and the macro name
                    kw_, rest_ = s.split(" ", 1) if not s.startswith((" ", "\t")) else (None, None)
                    if kw_:
                        s = kw_ + rng.choice(["  ", "    "]) + rest_
                out.append(s)
            lines = out
        with open(fp, "w") as fh:
            fh.write("\n".join(lines) + "\n")


def snap(t):
    def inter(m):
        return {k: sorted((tuple(i.atoms), tuple(str(p) for p in i.parameters), tuple(sorted((str(a), str(b)) for a, b in i.meta.items())))
                          for i in v) for k, v in m.interactions.items() if v}
    return {"defaults": dict(t.defaults), "atom_types": {k: dict(v) for k, v in t.atom_types.items()},
            "types": {k: {kk: [(tuple(p), str(m)) for p, m in vv] for kk, vv in v.items()} for k, v in t.types.items() if v},
            "nb": {tuple(sorted(k)): dict(v) for k, v in t.nonbond_params.items()},
            "defines": {k: (v if v is True else tuple(v)) for k, v in t.defines.items()},
            "blocks": {n: ([tuple(sorted((k, str(v)) for k, v in b.nodes[x].items())) for x in b.nodes], inter(b), sorted(map(sorted, b.edges)))
                       for n, b in t.force_field.blocks.items()},
            "mols": [m.mol_name for m in t.molecules],
            "mol_atoms": [[(m.molecule.nodes[x].get("atomname"), m.molecule.nodes[x].get("atype")) for x in m.molecule.nodes]
                          for m in t.molecules],
            "mol_res_edges": [sorted(map(sorted, m.edges)) for m in t.molecules],
            "mol_atom_edges": [sorted(map(sorted, m.molecule.edges)) for m in t.molecules],
            "idx": {k: list(v) for k, v in t.mol_idx_by_name.items() if v}}


def read(path):
    from polyply.src.topology import Topology
    try:
        return "ok", snap(Topology.from_gmx_topfile(name="x", path=path)), None
    except NotImplementedError as e:
        return "error-pragma", str(e)[:80], e
    except Exception as e:     # noqa
        if type(e).__name__ == "CaseTimeout":
            raise
        return "exc", "%s: %s" % (type(e).__name__, str(e)[:120]), e


def run_case(cid, rng, workdir):
    res = new_result()
    after = cid[0] == "after_mol"
    special = {"after_mol": "conditional-include-after-moleculetype", "mols_inc": "molecules-lines-in-an-included-file",
               "guard": "define-inside-the-conditional-before-its-include"}.get(cid[0])
    g = build(rng, after_mol=after, guard=cid[0] == "guard")
    files = dict(g.files)
    files["t.top"] = list(g.top_pre)
    try:
        _f, pre = flatten(files)
        names = pre["seen_molnames"] or g.molnames
    except ErrorActive:
        names = g.molnames
    if not names:
        names = ["M0"]
        files["t.top"] += g.unit_mol("M0")
    mols = [(rng.choice(names), rng.randint(1, 3)) for _ in range(rng.randint(2 if cid[0] == "mols_inc" else 1, 4))]
    if cid[0] == "mols_inc":
        # the last lines of the molecule list live in an included file (a shared solvent count)
        # lines before the include (possibly none), the included lines, lines after the include (possibly none)
        k = rng.randint(0, len(mols) - 1)
        k2 = rng.randint(k + 1, len(mols))
        files["t.top"] = files["t.top"] + ["[ system ]", "x", "[ molecules ]"] + ["%s %d" % (n, c) for n, c in mols[:k]] + \
            ['#include "molecules.inc"'] + ["%s %d" % (n, c) for n, c in mols[k2:]]
        files["molecules.inc"] = ["[ molecules ]"] + ["%s %d" % (n, c) for n, c in mols[k:k2]]
    else:
        files["t.top"] = files["t.top"] + ["[ system ]", "x", "[ molecules ]"] + ["%s %d" % (n, c) for n, c in mols]
    tree_root = os.path.join(workdir, "tree")
    write_tree(files, tree_root)
    res["sig"] = sig_of(sorted(files.items()))
    res["sample"] = {"files": {k: v[:25] for k, v in list(files.items())[:4]}, "molecules": mols}
    w = {"files": {k: "\n".join(v) for k, v in files.items()}}
    try:
        flat, info = flatten(files)
        expect_error = False
    except ErrorActive:
        flat, info, expect_error = None, {}, True
    if after:
        bump(res, "after_moleculetype_cases")
    if cid[0] == "mols_inc":
        bump(res, "molecule_lists_continued_in_an_included_file")
    if cid[0] == "guard":
        bump(res, "include_guard_cases")
    st_tree, s_tree, _e = read(os.path.join(tree_root, "t.top"))
    if expect_error:
        bump(res, "active_errors")
        res["nontrivial"] = True
        if st_tree != "error-pragma":
            violation(res, "active-error-not-raised", "an #error whose condition holds did not abort reading (%s: %s)" %
                      (st_tree, s_tree if st_tree != "ok" else "read fine"), w)
        return res
    if st_tree == "error-pragma":
        violation(res, "inactive-error-raised", "reading aborted with #error %r although its condition does not hold" % (s_tree,), w)
        return res
    # molecules named in [molecules] must have been seen by the reference preprocessor
    if any(n not in info["seen_molnames"] for n, _ in mols):
        if st_tree == "ok":
            pass
        res["status"] = "rejected"
        bump(res, "molecule_in_inactive_branch")
        return res
    flat_root = os.path.join(workdir, "flat")
    write_tree({"t.top": flat}, flat_root)
    w["flattened"] = "\n".join(flat)
    st_flat, s_flat, _e2 = read(os.path.join(flat_root, "t.top"))
    bump(res, "trees_compared")
    bump(res, "conditional_includes", g.stats["cond"])
    bump(res, "else_branches", g.stats["else"])
    bump(res, "nested_includes", g.stats["nested"])
    bump(res, "inactive_includes", info["inactive_includes"])
    bump(res, "inactive_errors", info["errors_inactive"])
    bump(res, "conditional_type_entries", g.stats["cond_types"])
    bump(res, "max_depth", g.stats["depth"])
    bump(res, "repeated_molecule_includes", g.stats["repeated_mol_includes"])
    if len({n for n, _ in mols}) < len(mols):
        bump(res, "repeated_names")
    res["nontrivial"] = (g.stats["cond"] + g.stats["errors"]) >= 1 and len(files) >= 2
    suffix = (":" + special) if special else ""
    if st_flat != "ok":
        if st_tree != "ok" and not special:
            # both readings fail the same way: outside the property (e.g. duplicate definitions)
            res["status"] = "rejected"
            note(res, "rejections", s_tree[:100])
            return res
        if st_tree == "ok":
            res["status"] = "error"
            res["error"] = "flattened file is rejected (%s) but the tree is read: oracle bug?\n%s" % (s_flat, "\n".join(flat))
            return res
    if st_tree != "ok":
        violation(res, special if special else "tree-rejected-flat-accepted",
                  "the include tree is rejected (%s) but its flattened equivalent is read" % s_tree, w)
        return res
    if s_tree != s_flat:
        diff = [k for k in s_tree if s_tree[k] != s_flat[k]]
        detail = ""
        for k in diff[:2]:
            detail += " %s: tree=%s flat=%s;" % (k, str(s_tree[k])[:200], str(s_flat[k])[:200])
        key = special if special else "differs-from-flattened:%s" % "+".join(diff)
        violation(res, key, "reading the tree differs from reading the flattened file in %s:%s" % (diff, detail), w)
        return res
    # files of the same relative names in the directory the program is started from must never be read instead of the
    # ones next to the including file: they abort reading if touched
    for p_ in files:
        if p_ != "t.top":
            dp = os.path.join(workdir, p_)
            os.makedirs(os.path.dirname(dp), exist_ok=True)
            with open(dp, "w") as fh:
                fh.write("#error decoy file in the start directory was read\n")
    # the same tree addressed by a bare / relative file name from other working directories
    here = os.getcwd()
    try:
        for label, cwd, rel in (("bare-name-from-its-directory", tree_root, "t.top"),
                                ("relative-path-from-parent", workdir, os.path.join("tree", "t.top"))):
            os.chdir(cwd)
            st_r, s_r, _e4 = read(rel)
            bump(res, "relative_path_readings")
            if st_r != "ok" or s_r != s_tree:
                what = s_r if st_r != "ok" else [k for k in s_tree if s_tree[k] != s_r[k]]
                violation(res, "include-path-not-relative-to-including-file:" + label,
                          "reading the same tree as %r from %s gives %s" % (rel, "its own directory" if cwd == tree_root else "the parent directory", what), w)
    finally:
        os.chdir(here)
    # includes written with absolute paths in the top-level file
    if len(files) >= 2 and rng.random() < 0.3:
        import re as _re
        abs_root = os.path.join(workdir, "abstree")
        files_abs = dict(files)
        files_abs["t.top"] = [_re.sub(r'^(\s*#include\s+")([^"/][^"]*)(")', lambda m_: m_.group(1) + os.path.join(abs_root, m_.group(2)) + m_.group(3), ln)
                              for ln in files["t.top"]]
        if files_abs["t.top"] != files["t.top"]:
            write_tree(files_abs, abs_root)
            st_a, s_a, _e6 = read(os.path.join(abs_root, "t.top"))
            bump(res, "readings_with_absolute_include_paths")
            if st_a != "ok" or s_a != s_tree:
                what = s_a if st_a != "ok" else [k for k in s_tree if s_tree[k] != s_a[k]]
                violation(res, "absolute-include-path-not-honoured", "the same tree with absolute paths in the #include lines of the "
                          "top-level file gives %s" % (what,), w)
    # the topology reached through a symbolic link in another directory: includes are relative to the including file as
    # it was named, i.e. to the directory of the link (the files next to the link's target are made unreadable)
    if len(files) >= 2 and rng.random() < 0.3:
        import shutil
        link_root = os.path.join(workdir, "linkdir")
        target_root = os.path.join(workdir, "elsewhere")
        shutil.copytree(tree_root, link_root)
        os.makedirs(target_root)
        shutil.copy(os.path.join(tree_root, "t.top"), os.path.join(target_root, "t.top"))
        os.remove(os.path.join(link_root, "t.top"))
        os.symlink(os.path.join(target_root, "t.top"), os.path.join(link_root, "t.top"))
        st_l, s_l, _e5 = read(os.path.join(link_root, "t.top"))
        bump(res, "readings_through_a_symbolic_link")
        if st_l != "ok" or s_l != s_tree:
            what = s_l if st_l != "ok" else [k for k in s_tree if s_tree[k] != s_l[k]]
            violation(res, "include-path-not-relative-to-including-file:symbolic-link",
                      "reading the topology through a symbolic link (included files next to the link, not next to its target) "
                      "gives %s" % (what,), w)
    # expected molecule list from the spec
    exp_list = [n for n, c in mols for _ in range(c)]
    if s_tree["mols"] != exp_list:
        violation(res, "molecule-list-wrong", "molecule list %s, [molecules] expands to %s" % (s_tree["mols"], exp_list), w)
    exp_idx = {}
    for i, n in enumerate(exp_list):
        exp_idx.setdefault(n, []).append(i)
    if s_tree["idx"] != exp_idx:
        violation(res, "molecule-index-by-name-wrong", "index by name %s, expected %s" % (s_tree["idx"], exp_idx), w)
    # whitespace / comment law
    noise_kind = "all" if rng.random() < 0.3 else "nonpragma"
    noisy_root = os.path.join(workdir, "noisy")
    write_tree(files, noisy_root, noise=noise_kind, rng=rng)
    st_n, s_n, _e3 = read(os.path.join(noisy_root, "t.top"))
    bump(res, "whitespace_variants")
    if st_n != "ok" or s_n != s_tree:
        what = s_n if st_n != "ok" else [k for k in s_tree if s_tree[k] != s_n[k]]
        violation(res, "whitespace-or-comments-change-result:%s" % ("indented-pragmas" if noise_kind == "all" else "plain-lines"),
                  "adding comments / blank lines / indentation changes the reading: %s" % (what,),
                  dict(w, noisy={k: open(os.path.join(noisy_root, k)).read() for k in files}))
    # instance independence
    from polyply.src.topology import Topology
    try:
        t = Topology.from_gmx_topfile(name="x", path=os.path.join(tree_root, "t.top"))
    except Exception as err:      # noqa
        if type(err).__name__ == "CaseTimeout":
            raise
        violation(res, "include-path-not-relative-to-including-file:file-of-the-start-directory-read",
                  "a later reading of the same tree stopped with %s: %s" % (type(err).__name__, str(err)[:120]), w)
        return res
    byname = {}
    for i, m in enumerate(t.molecules):
        byname.setdefault(m.mol_name, []).append(i)
    for name, idxs in byname.items():
        if len(idxs) >= 2:
            bump(res, "independence_checks")
            a, b = t.molecules[idxs[0]], t.molecules[idxs[1]]
            n0 = list(a.molecule.nodes)[0]
            a.molecule.nodes[n0]["pvmon_mark"] = 1
            r0 = list(a.nodes)[0]
            a.nodes[r0]["pvmon_mark"] = 1
            if "pvmon_mark" in b.molecule.nodes[n0] or "pvmon_mark" in b.nodes[r0]:
                violation(res, "instances-share-state", "changing a node of instance %d of %s shows up in instance %d" %
                          (idxs[0], name, idxs[1]), w)
            if a.molecule.interactions.get("bonds") and a.molecule.interactions["bonds"] is b.molecule.interactions.get("bonds"):
                violation(res, "instances-share-state", "instances %d and %d of %s share their interaction lists" %
                          (idxs[0], idxs[1], name), w)
            break
    return res
