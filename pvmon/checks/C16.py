"""C16 - the neighbour engine always reflects exactly the currently positioned residues."""
import itertools

import numpy as np

from ..core import new_result, bump, violation, sig_of, note
from .. import attach

PID = "C16"
LEVEL = "exploration"
RULE = ("seeded operation histories (add incl. start=True, overwrite-add, remove of 1-5 nodes possibly spanning several "
        "search trees, consolidate, position queries, force queries with exclusion lists, minimum-image distance "
        "queries) driven on real NonBondEngine objects with few nodes, non-cubic boxes and points biased to the box "
        "faces; a dictionary model (40 lines) is updated in lock step and every query is recomputed by brute force "
        "over the model with explicit minimum-image vectors; an icontract class invariant compares the four internal "
        "views after every public call. 'big' histories pre-load 5001 positions so that start=True opens further "
        "trees. non-trivial = history with >= 10 force queries that saw >= 1 neighbour; distinct = hash of the "
        "operation list"
        ' Later: pre-loaded residues confined to a slab with probes next to residues of later trees; queries exactly on a positioned residue; residues given beforehand as arrays of the molecule graphs and a write_back operation (update_positions_in_molecules) compared residue by residue with the model.')
ASSUMPTIONS = ["a force query within 0.1 nm of an *excluded* residue may return inf or the finite sum (statement silent)",
               "pairs whose distance is within 1e-9 of the cut-off or of 0.1 nm are accepted either way",
               "queries are made for nodes that are not themselves positioned"]
CASE_TIMEOUT = 300
WALL = {"quick": 900, "thorough": 7200}
REQUIRED = {"ops": 20000, "force_queries": 2000, "force_queries_with_neighbours": 500, "force_across_face": 100,
            "inf_rule_hits": 20, "overwrite_adds": 100, "removals": 1000, "trees_emptied": 10, "multi_tree_histories": 3,
            "removals_spanning_trees": 3, "force_queries_neighbours_only_in_later_tree": 5, "queries_exactly_on_a_residue": 100, "invariant_evaluations": 20000, "engine_states": 1000,
            "write_backs": 100, "written_back_positions_compared": 2000}
INV = {"n": 0}


class InvariantBroken(Exception):
    pass


def views_agree(self):
    """B4: finite rows of positions == union of defined_idxs (no duplicates) == keys of gndx_to_tree == tree data"""
    INV["n"] += 1
    fin = set(np.where(np.isfinite(self.positions[:, 0]))[0].tolist())
    allidx = [int(g) for lst in self.defined_idxs for g in lst]
    if fin != set(allidx) or len(allidx) != len(set(allidx)):
        return False
    if set(int(k) for k in self.gndx_to_tree) != fin:
        return False
    for ti, (tree, idxs) in enumerate(zip(self.position_trees, self.defined_idxs)):
        if tree.n != len(idxs):
            return False
        if tree.n and not np.array_equal(np.asarray(tree.data), self.positions[idxs]):
            return False
        for g in idxs:
            if self.gndx_to_tree[g] != ti:
                return False
    return True


_done = False


def setup():
    global _done
    if _done:
        return
    _done = True
    import icontract
    import polyply.src.nonbond_engine as ne
    icontract.invariant(views_agree, error=InvariantBroken)(ne.NonBondEngine)


def plan(tier, seed):
    n = 1200 if tier == "quick" else 12000
    cids = [["small", i] for i in range(n)]
    cids += [["big", i] for i in range(max(4, n // 15))]
    cids += [["laws", i] for i in range(n // 8)]
    return cids


def minimg(d, box):
    return d - box * np.round(d / box)


def lj_force(v, sig, eps):
    d = np.linalg.norm(v)
    return 24 * eps / d * (2 * (sig / d) ** 12 - (sig / d) ** 6) * v / d


def run_case(cid, rng, workdir):
    res = new_result()
    if cid[0] == "laws":
        return run_laws(cid, rng, res)
    from polyply.src.nonbond_engine import NonBondEngine
    big = cid[0] == "big"
    nops = (80 if not big else 60)
    box = np.array([rng.uniform(2.5, 6.0) for _ in range(3)])
    if rng.random() < 0.3:
        box = np.array([box[0]] * 3)
    nm, per = 3, 8
    n = nm * per + (5001 if big else 0)
    pos = np.ones((n, 3)) * np.inf
    nodes = {(m, i): m * per + i for m in range(nm) for i in range(per)}
    types = [rng.choice("ABC") for _ in range(nm * per)]
    sizes = {"A": 0.47, "B": 0.40, "C": 0.62}
    if big:
        # in half of the big histories the pre-loaded residues fill a slab only, so that a query elsewhere finds the
        # first search tree empty within the cut-off and its neighbours in a later tree
        slab = rng.choice([1.0, 0.35, 0.35])
        for k in range(5001):
            nodes[(9, k)] = nm * per + k
            pos[nm * per + k] = [rng.uniform(0, box[0] * slab), rng.uniform(0, box[1]), rng.uniform(0, box[2])]
        types += ["A"] * 5001
    # the molecules the positions are written back to; in some histories a few residues come with coordinates of their
    # own (as read from a structure file): they sit in the molecule and in the table the engine is created with
    import networkx as nx
    mols = [nx.path_graph(per) for _ in range(nm)]
    if rng.random() < 0.5:
        for m in range(nm):
            for i in range(per):
                if rng.random() < 0.3:
                    q = np.array([rng.uniform(0, b * 0.999) for b in box])
                    pos[nodes[(m, i)]] = q
                    mols[m].nodes[i]["position"] = q.copy()
        bump(res, "histories_with_residues_given_beforehand")
    im = {}
    for a, b in itertools.combinations_with_replacement("ABC", 2):
        im[frozenset([a, b])] = ((sizes[a] + sizes[b]) / 2, 1.0)
    cut = 2 * max(sizes.values())
    eng = NonBondEngine(pos, nodes, types, im, None, None, cut_off=cut, boxsize=box)
    model = {k: pos[g].copy() for k, g in nodes.items() if np.isfinite(pos[g][0])}
    ops = []
    fq_nb = 0

    def rp():
        p = np.array([rng.uniform(0, b) for b in box])
        if rng.random() < 0.45:
            ax = rng.randrange(3)
            p[ax] = rng.choice([rng.uniform(0, 0.15), box[ax] - rng.uniform(1e-6, 0.15)])
        if model and rng.random() < 0.35:
            # near an existing residue (possibly its periodic image) so that forces / the 0.1 nm rule are exercised
            small = sorted(k for k in model if k[0] != 9) if big else None
            if big and small and rng.random() < 0.5:
                q = model[rng.choice(small)]
            else:
                q = model[rng.choice(sorted(model))] if not big else model[(9, rng.randrange(5001))]
            d = np.array([rng.gauss(0, 1) for _ in range(3)])
            d /= np.linalg.norm(d)
            p = (q + d * rng.choice([0.05, 0.09, 0.11, 0.3, 0.5, 0.8, 1.2, 0.0])) % box     # 0.0: exactly on top of it
        return p

    def bad(key, msg, extra=None):
        violation(res, key, msg, {"ops": ops[-25:], "box": box, "extra": extra})

    def force_query(m, i, p, ex):
        nonlocal fq_nb
        ops.append(("force", m, i, p.tolist(), ex))
        f = eng.compute_force_point(p, m, i, exclude=ex)
        bump(res, "force_queries")
        F = np.zeros(3)
        F_alt = np.zeros(3)      # boundary-tolerant alternative
        close = close_ex = boundary = False
        nn = 0
        across = False
        my_t = types[nodes[(m, i)]]
        for (mm, kk), q in model.items():
            raw = p - q
            v = minimg(raw, box)
            d = np.linalg.norm(v)
            is_ex = (mm == m and kk in ex)
            if abs(d - 0.1) < 1e-9 or abs(d - cut) < 1e-9:
                boundary = True
            if d == 0.0:
                bump(res, "queries_exactly_on_a_residue")
            if d < 0.1 and d <= cut:
                if is_ex:
                    close_ex = True
                else:
                    close = True
            if d > cut or is_ex:
                continue
            sig, eps = im[frozenset([my_t, types[nodes[(mm, kk)]]])]
            F += lj_force(v, sig, eps)
            nn += 1
            if not np.allclose(raw, v):
                across = True
        if nn and len(eng.position_trees) > 1:
            # which trees hold the neighbours that count
            first = set(eng.defined_idxs[0])
            holders = {0 if nodes[(mm, kk)] in first else 1 for (mm, kk), q in model.items()
                       if not (mm == m and kk in ex) and np.linalg.norm(minimg(p - q, box)) <= cut}
            if holders == {1}:
                bump(res, "force_queries_neighbours_only_in_later_tree")
        if nn:
            fq_nb += 1
            bump(res, "force_queries_with_neighbours")
        if across:
            bump(res, "force_across_face")
        if boundary:
            bump(res, "boundary_skipped")
            return
        isinf = np.isscalar(f) and np.isinf(f) or (not np.isscalar(f) and np.all(np.isinf(np.atleast_1d(f))))
        if close:
            bump(res, "inf_rule_hits")
            if not isinf:
                bad("close-contact-not-infinite", "a non-excluded residue is closer than 0.1 nm but the force is %s" % (f,))
        elif close_ex:
            pass
        elif isinf:
            bad("infinite-without-close-contact", "force is inf but no positioned residue is within 0.1 nm")
        else:
            fv = np.zeros(3) if np.isscalar(f) else np.asarray(f, float)
            if not np.allclose(fv, F, rtol=1e-9, atol=1e-9 * max(1.0, np.linalg.norm(F))):
                key = "force-wrong-across-face" if across else "force-wrong"
                bad(key, "force %s, minimum-image sum over %d positioned non-excluded residues within the cut-off is %s" %
                    (fv.tolist(), nn, F.tolist()), {"excluded": ex})

    for op in range(nops):
        c = rng.random()
        m, i = rng.randrange(nm), rng.randrange(per)
        try:
            if c < 0.38:
                over = (m, i) in model
                if over and rng.random() < 0.6:
                    continue
                p = rp()
                start = rng.random() < (0.5 if big else 0.3)
                ops.append(("add", m, i, p.tolist(), start))
                ntrees = len(eng.position_trees)
                eng.add_positions(p, m, i, start=start)
                model[(m, i)] = p
                bump(res, "adds")
                if over:
                    bump(res, "overwrite_adds")
                if len(eng.position_trees) > ntrees:
                    bump(res, "trees_opened")
                if big and len(eng.position_trees) > 1 and rng.random() < 0.5:
                    # ask at once for the force next to the residue just added (it lives in the newest tree)
                    free = [(mm, kk) for mm in range(nm) for kk in range(per) if (mm, kk) not in model]
                    if free:
                        fm, fi = rng.choice(free)
                        d = np.array([rng.gauss(0, 1) for _ in range(3)])
                        d /= np.linalg.norm(d)
                        force_query(fm, fi, (p + d * rng.choice([0.05, 0.3, 0.5, 0.8])) % box, [])
            elif c < 0.58:
                if big and rng.random() < 0.5:
                    # remove nodes living in different trees with one call
                    ks = [k for k in range(per) if (m, k) in model]
                    rng.shuffle(ks)
                    ks = ks[:rng.randint(1, 5)]
                else:
                    ks = [rng.randrange(per) for _ in range(rng.randint(1, 4))]
                trees_hit = {eng.gndx_to_tree.get(nodes[(m, k)]) for k in ks} - {None}
                if len(trees_hit) > 1:
                    bump(res, "removals_spanning_trees")
                ops.append(("remove", m, ks))
                eng.remove_positions(m, ks)
                for k in ks:
                    if model.pop((m, k), None) is not None:
                        bump(res, "removals")
                if any(t.n == 0 for t in eng.position_trees):
                    bump(res, "trees_emptied")
            elif c < 0.63:
                if rng.random() < 0.5:
                    ops.append(("concatenate",))
                    eng.concatenate_trees()
                    bump(res, "consolidations")
                else:
                    # positions written back to the molecules: each residue carries the last position given, or an
                    # undefined one after removal
                    ops.append(("write_back",))
                    eng.update_positions_in_molecules(mols)
                    bump(res, "write_backs")
                    for mm in range(nm):
                        for kk in range(per):
                            got = np.asarray(mols[mm].nodes[kk].get("position", np.full(3, np.inf)), float)
                            exp = model.get((mm, kk))
                            bump(res, "written_back_positions_compared")
                            if exp is None:
                                if np.any(np.isfinite(got)):
                                    bump(res, "written_back_after_removal")
                                    bad("written-back-position-after-removal-defined",
                                        "residue (%d,%d) has no position in the system but the molecule carries %s after "
                                        "update_positions_in_molecules" % (mm, kk, got.tolist()))
                                    break
                            elif not np.array_equal(got, exp):
                                bad("written-back-position-not-last-given",
                                    "residue (%d,%d): molecule carries %s, last position given was %s" %
                                    (mm, kk, got.tolist(), exp.tolist()))
                                break
            elif c < 0.75:
                ops.append(("get", m, i))
                g = eng.get_point(m, i)
                exp = model.get((m, i))
                bump(res, "position_queries")
                if exp is None:
                    if np.any(np.isfinite(g)):
                        bad("position-after-removal-defined", "get_point returns %s for a node without position" % g)
                elif not np.array_equal(g, exp):
                    bad("position-not-last-given", "get_point returns %s, last position given was %s" % (g, exp))
            else:
                if (m, i) in model:
                    continue
                p = rp()
                ex = [k for k in range(per) if rng.random() < 0.25]
                force_query(m, i, p, ex)
        except InvariantBroken as err:
            bad("views-disagree", "internal views disagree after %s: %s" % (ops[-1][0], str(err)[:200]))
            break
        except Exception as err:     # noqa
            if type(err).__name__ == "CaseTimeout":
                raise
            bad("operation-raises:%s:%s" % (ops[-1][0], type(err).__name__),
                "%s raised %s: %s" % (ops[-1][0], type(err).__name__, str(err)[:200]))
            break
        note(res, "engine_states", hash(frozenset(k for k in model if k[0] != 9)) % (10 ** 12))
        bump(res, "ops")
    if len(eng.position_trees) > 1:
        bump(res, "multi_tree_histories")
    bump(res, "invariant_evaluations", INV["n"])
    INV["n"] = 0
    res["nontrivial"] = fq_nb >= (10 if not big else 3)
    res["sig"] = sig_of(ops)
    res["sample"] = {"stratum": cid[0], "box": box.tolist(), "first_ops": [o if o[0] != "add" else (o[0], o[1], o[2], [round(x, 3) for x in o[3]], o[4]) for o in ops[:12]]}
    return res


def run_laws(cid, rng, res):
    """minimum-image distance laws"""
    from polyply.src.nonbond_engine import NonBondEngine
    box = np.array([rng.uniform(2.0, 7.0) for _ in range(3)])
    pos = np.ones((2, 3)) * np.inf
    eng = NonBondEngine(pos, {(0, 0): 0, (0, 1): 1}, ["A", "A"], {frozenset(["A"]): (0.47, 1.0)}, None, None,
                        cut_off=1.0, boxsize=box)
    INV["n"] = 0
    pts = []
    for _ in range(40):
        a = np.array([rng.uniform(0, b) for b in box])
        b = np.array([rng.uniform(0, b) for b in box])
        if rng.random() < 0.5:
            ax = rng.randrange(3)
            a[ax] = rng.uniform(0, 0.1)
            b[ax] = box[ax] - rng.uniform(0, 0.1)
        d1 = eng.pbc_min_dist(a, b)
        d2 = eng.pbc_min_dist(b, a)
        ref = np.linalg.norm(minimg(a - b, box))
        direct = np.linalg.norm(a - b)
        bump(res, "distance_queries")
        w = {"a": a, "b": b, "box": box}
        if abs(d1 - d2) > 1e-12:
            violation(res, "min-image-asymmetric", "d(a,b)=%r d(b,a)=%r" % (d1, d2), w)
        if d1 > direct + 1e-12:
            violation(res, "min-image-exceeds-direct", "d=%r direct=%r" % (d1, direct), w)
        if abs(d1 - ref) > 1e-9:
            violation(res, "min-image-wrong", "d=%r, brute-force minimum image %r" % (d1, ref), w)
        ax = rng.randrange(3)
        shift = np.zeros(3)
        shift[ax] = box[ax] * rng.choice([-2, -1, 1, 2])
        d3 = eng.pbc_min_dist(a + shift, b)
        if abs(d3 - d1) > 1e-9:
            violation(res, "min-image-not-periodic", "d(a+L,b)=%r d(a,b)=%r" % (d3, d1), w)
        pts.append((a.round(3).tolist(), b.round(3).tolist()))
    res["nontrivial"] = True
    res["sig"] = sig_of(pts)
    res["sample"] = {"stratum": "laws", "box": box.tolist(), "pairs": pts[:3]}
    return res
