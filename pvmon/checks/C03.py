"""C03 - gen_coords writes one finite coordinate per topology atom, in topology order; right box."""
import os
from pathlib import Path

import numpy as np

from ..core import new_result, bump, violation, sig_of, note
from ..gen import topo as T
from . import _coords_common as CC

PID = "C03"
LEVEL = "exploration"
RULE = ("seeded topologies (1-3 molecule types in any order and count, 1-5-atom residues incl. virtual sites with "
        "explicit zero mass, atoms with and without explicit mass) x option sets (-box cubic/non-cubic, -dens, -c "
        "complete / prefix / minus -res residues, -mc, -b volumes, -grid, -start, seeds) through the real gen_coords; "
        "an own .gro reader compares the rows with the expansion of [molecules] computed from the spec, every "
        "coordinate must be finite (also watched at NonBondEngine.add_positions), and the box line must be the "
        "input-structure box / the requested box / the cube with V = M*1.660541/density. non-trivial = accepted run "
        "with >= 2 molecules or >= 4 residues; distinct = hash(topology text, options)"
        ' Later strata: PDB inputs with TER records, per-atom masses in [ atoms ] lines, two residue definitions under one name, rings declared cyclic that carry ligands, a density given together with a requested box or an input structure (the box stays).')
ASSUMPTIONS = ["names <= 5 characters and < 99999 atoms so the fixed-width .gro columns are lossless",
               "box edge from density compared within 1.5e-5 nm (the program rounds the edge to 5 decimals)",
               "IOError/OSError = the program rejecting an input (counted); any other exception type is reported"]
CASE_TIMEOUT = 240
WALL = {"quick": 1200, "thorough": 10800}
MAX_TIMEOUTS = {"quick": 1, "thorough": 20}
REQUIRED = {"outputs_checked": 150, "atoms_checked": 3000, "box_from_density": 20, "box_from_option": 30,
            "box_from_structure": 30, "with_input_structure": 30, "with_meta_structure": 8, "with_build_res": 8,
            "with_start": 10, "with_grid": 8, "virtual_site_systems": 20, "zero_mass_atoms": 20,
            "injected_failed_attempts": 30, "injected_step_failures": 60, "rings_with_ligands": 30}


def plan(tier, seed):
    n = 520 if tier == "quick" else 6000
    return [["opt", i] for i in range(n)] + [["faults", i] for i in range(n // 2)] + [["cyclig", i] for i in range(n // 10)]


def setup():
    CC.attach_all()


def base_build(sysd, workdir, box, tag="base"):
    """a complete structure used as supplied input for -c / -mc strata (built by the real program)"""
    from polyply import gen_coords
    out = Path(workdir) / (tag + ".gro")
    run, _ = CC.run_gen_coords(toppath=Path(workdir) / "s.top", outpath=out, name="x", box=box)
    if run["status"] != "ok":
        return None
    return T.read_gro(str(out))


def split_rows(sysd, gro):
    """rows grouped per (molecule instance, residue)"""
    groups = []
    k = 0
    for mi, mt in enumerate(T.expand(sysd)):
        for ri, rn in enumerate(mt["res"]):
            na = len(sysd["residues"][rn]["atoms"])
            groups.append({"mol": mi, "molname": mt["name"], "res": ri, "resname": T.shown(sysd, rn), "reskey": rn,
                           "rows": gro["rows"][k:k + na],
                           "resid": mt.get("resids", range(1, 10 ** 6))[ri]})
            k += na
    return groups


def make_options(rng, sysd, workdir, res, allow=("plain", "c_full", "c_prefix", "c_res", "mc", "mc_res", "dens", "grid", "start", "bvol"),
                 prefix_groups=None):
    """returns (kwargs for gen_coords, info dict) ; info: expected box source and supplied groups"""
    info = {"mode": None, "supplied": [], "centres": [], "box_src": None, "box": None}
    mode = rng.choice(allow)
    info["mode"] = mode
    kw = {}
    b = round(rng.uniform(3.5, 6.0), 3)
    box = np.array([b, b, b]) if rng.random() < 0.6 else np.array([round(rng.uniform(3.5, 6.0), 3) for _ in range(3)])
    if mode == "dens":
        kw["density"] = round(min(rng.uniform(50, 300), T.total_mass(sysd) * 1.6605410 / 2.6 ** 3), 3)
        info["box_src"] = "density"
    elif mode in ("c_full", "c_prefix", "c_res", "mc", "mc_res", "c_mc"):
        base = base_build(sysd, workdir, box)
        if base is None:
            return None, info
        groups = split_rows(sysd, base)
        # back-mapped atoms may stick out of the box the structure was built in: translate everything into the
        # positive octant and give the supplied structure a box that contains all of it
        allxyz = np.array([r["xyz"] for r in base["rows"]])
        shift = 0.2 - allxyz.min(axis=0)
        newbox = [round(float(x), 3) for x in np.maximum(np.array(base["box"][:3]), allxyz.max(axis=0) + shift + 0.3)]
        base["box"] = newbox
        info["box_src"] = "structure"
        info["box"] = base["box"]
        # round to the 3 decimals of the input file
        for g in groups:
            for r in g["rows"]:
                r["xyz"] = tuple(round(x + s_, 3) for x, s_ in zip(r["xyz"], shift))
        if mode == "c_full":
            sup = groups
        elif mode == "c_prefix":
            k = prefix_groups or rng.randint(1, max(1, len(groups) - 1))
            sup = groups[:k]
        elif mode in ("c_res", "mc_res"):
            names = sorted({g["resname"] for g in groups})
            drop = rng.choice(names)
            kw["build_res"] = [drop]
            sup = [g for g in groups if g["resname"] != drop]
            info["build_res"] = drop
            if rng.random() < 0.35:
                # the structure file is complete (the usual situation: an existing structure in which one kind of residue
                # is to be built again); the residues named by -res are in the file and are passed over
                info["complete_file"] = True
                bump(res, "complete_structure_with_residues_named_for_rebuilding")
            if sup and rng.random() < 0.3:
                # growth of one molecule is told to start at a residue whose coordinates are supplied
                # preferably in a molecule whose first residue is among those to be rebuilt
                headless = {g["mol"] for g in groups if g["res"] == 0 and g["resname"] == drop}
                g0 = rng.choice([g for g in sup if g["mol"] in headless] or sup)
                if g0["mol"] in headless:
                    bump(res, "start_at_supplied_residue_first_residue_rebuilt")
                if rng.random() < 0.5:
                    kw["start"] = ["%s#%d-%s#%d" % (g0["molname"], g0["mol"], g0["resname"], g0["resid"])]
                else:
                    # by molecule name only: every molecule of that name starts there
                    kw["start"] = ["%s-%s#%d" % (g0["molname"], g0["resname"], g0["resid"])]
                    bump(res, "start_by_molecule_name")
                info["start"] = kw["start"]
                bump(res, "start_at_supplied_residue")
        elif mode == "c_mc":
            # atoms for the first residues (-c) and, in the same run, centres for those and further residues (-mc)
            if len(groups) < 2:
                return None, info
            k1 = rng.randint(1, len(groups) - 1)
            sup = groups[:rng.randint(k1 + 1, len(groups))]
            info["c_part"] = groups[:k1]
        else:
            k = prefix_groups or rng.randint(max(1, len(groups) // 2), len(groups))
            sup = groups[:k]
        # supplied coordinates have to lie inside [0, L): a point exactly on the upper face is outside the
        # half-open box (the program rejects it, with an error from the KD-tree)
        bx = base["box"]
        for g in sup:
            cs = [r["xyz"] for r in g["rows"]] + [tuple(round(float(x), 3) for x in np.mean([r["xyz"] for r in g["rows"]], axis=0))]
            if any(not (0.0 <= x < bx[k] - 1e-9) for c in cs for k, x in enumerate(c)):
                return None, info
        if mode == "c_mc":
            rows = []
            for g in info["c_part"]:
                for r in g["rows"]:
                    rows.append({"resid": g["resid"], "resname": T.shown(sysd, g["resname"]), "name": r["name"], "xyz": r["xyz"]})
            T.write_gro(os.path.join(workdir, "in.gro"), rows, base["box"])
            kw["coordpath"] = Path(workdir) / "in.gro"
        written = groups if info.get("complete_file") else sup
        if mode in ("mc", "mc_res", "c_mc"):
            rows = []
            for g in written:
                c = np.mean([r["xyz"] for r in g["rows"]], axis=0)
                c = tuple(round(float(x), 3) for x in c)
                rows.append({"resid": g["resid"], "resname": g["resname"], "name": "CG", "xyz": c})
                if any(g is g_ for g_ in sup):
                    info["centres"].append((g, c))
            T.write_gro(os.path.join(workdir, "in_mc.gro"), rows, base["box"])
            kw["coordpath_meta"] = Path(workdir) / "in_mc.gro"
        else:
            rows = []
            for gi, g in enumerate(written):
                for r in g["rows"]:
                    rows.append({"resid": g["resid"], "resname": T.shown(sysd, g["resname"]), "name": r["name"], "xyz": r["xyz"]})
                if gi + 1 == len(written) or written[gi + 1]["mol"] != g["mol"]:
                    rows[-1]["ter"] = True
            if rng.random() < 0.3 and 0 < len(rows) < 9999:
                # the same structure as a PDB file, one TER record after every molecule
                T.write_pdb(os.path.join(workdir, "in.pdb"), rows, base["box"])
                kw["coordpath"] = Path(workdir) / "in.pdb"
                bump(res, "pdb_inputs")
                if len({g["mol"] for g in sup}) >= 3:
                    bump(res, "pdb_inputs_with_three_or_more_molecules")
            else:
                T.write_gro(os.path.join(workdir, "in.gro"), rows, base["box"])
                kw["coordpath"] = Path(workdir) / "in.gro"
            info["supplied"] = sup
        # a conflicting -box is ignored in favour of the structure's box
        if rng.random() < 0.3:
            kw["box"] = box + 0.5
        # ... and so is a density: the molecules are packed into the box of the structure
        if rng.random() < 0.3:
            kw["density"] = round(rng.uniform(50, 300), 3)
            info["density_with_box"] = True
    else:
        kw["box"] = box
        info["box_src"] = "option"
        info["box"] = box.tolist()
        # a density given together with -box: the requested box is the one that is carried
        if rng.random() < 0.3:
            kw["density"] = round(rng.uniform(50, 300), 3)
            info["density_with_box"] = True
    if mode == "grid":
        pts = np.array([[rng.uniform(0, box[k]) for k in range(3)] for _ in range(rng.randint(60, 200))])
        np.savetxt(os.path.join(workdir, "grid.dat"), pts)
        kw["grid"] = os.path.join(workdir, "grid.dat")
    if mode == "start":
        mols = T.expand(sysd)
        mi = rng.randrange(len(mols))
        mt = mols[mi]
        ri = rng.randrange(len(mt["res"]))
        kw["start"] = ["%s#%d-%s#%d" % (mt["name"], mi, T.shown(sysd, mt["res"][ri]), mt.get("resids", range(1, 10 ** 6))[ri])]
        info["start"] = kw["start"]
    if mode == "bvol":
        al = sysd.get("alias", {})
        rn = rng.choice(sorted(k_ for k_ in sysd["residues"] if k_ not in al and k_ not in al.values()) or sorted(sysd["residues"]))
        with open(os.path.join(workdir, "v.bld"), "w") as fh:
            fh.write("[ volumes ]\n%s %.3f\n" % (rn, rng.uniform(0.4, 0.7)))
        kw["build"] = [Path(workdir) / "v.bld"]
    kw["step_fudge"] = rng.choice([0.8, 1.0, 1.0])
    return kw, info


def check_output(res, sysd, info, kw, outp, key_suffix=""):
    gro = T.read_gro(str(outp))
    exp = T.expected_rows(sysd)
    bump(res, "outputs_checked")
    bump(res, "atoms_checked", len(exp))
    got = [(r["resid"], r["resname"], r["name"]) for r in gro["rows"]]
    out = []
    if len(got) != len(exp):
        out.append(("atom-count", "output lists %d atoms, expanded [molecules] has %d" % (len(got), len(exp))))
    else:
        for i, (g, e) in enumerate(zip(got, exp)):
            if g != (e[0] % 100000, e[1], e[2]):
                out.append(("atom-row-differs", "row %d is %s, topology order requires %s" % (i + 1, g, e)))
                break
    for i, r in enumerate(gro["rows"]):
        if not all(np.isfinite(x) for x in r["xyz"]):
            out.append(("non-finite-coordinate", "atom %d (%s %s%d) has coordinates %s" %
                        (i + 1, r["name"], r["resname"], r["resid"], r["xyz_text"])))
            break
    # box
    box = gro["box"]
    if info.get("density_with_box"):
        bump(res, "density_given_together_with_a_box")
    if info["box_src"] == "density":
        bump(res, "box_from_density")
        edge = (T.total_mass(sysd) * 1.6605410 / kw["density"]) ** (1 / 3.0)
        if len(box) != 3 or any(abs(x - edge) > 1.5e-5 for x in box):
            out.append(("box-not-from-density", "box %s, cube for mass %.3f and density %.3f has edge %.5f" %
                        (box, T.total_mass(sysd), kw["density"], edge)))
    elif info["box_src"] == "structure":
        bump(res, "box_from_structure")
        if [round(x, 5) for x in box] != [round(x, 5) for x in info["box"]]:
            out.append(("box-not-from-structure", "box %s, input structure has %s" % (box, info["box"])))
    else:
        bump(res, "box_from_option")
        if [round(x, 5) for x in box] != [round(x, 5) for x in info["box"]]:
            out.append(("box-not-as-requested", "box %s, requested %s" % (box, info["box"])))
    return gro, out


def run_case(cid, rng, workdir):
    res = new_result()
    cyclig = None
    if cid[0] == "cyclig":
        # ring molecules declared cyclic that also carry a ligand (-cycles together with -lig)
        sysd = T.gen_system(rng, max_types=1, min_res=4, max_res=7, max_count=1, shapes=("ring",), kinds=["single", "chain"])
        host = sysd["moltypes"][0]
        nh = rng.randint(1, 2)
        tn = sorted(sysd["atypes"])[0]
        sysd["residues"]["LIG"] = {"name": "LIG", "kind": "single", "atoms": [{"name": "L0", "atype": tn, "charge": 0.0, "mass": None}],
                                   "bonds": [], "angles": [], "vs": []}
        sysd["moltypes"].append({"name": "LG", "res": ["LIG"], "edges": [], "links": [], "shape": "lin", "resids": [1]})
        sysd["molecules"] = [(host["name"], nh), ("LG", nh)]
        b_ = round(rng.uniform(5.0, 7.0), 3)
        cyclig = {"box": np.array([b_, b_, b_]), "cycles": [host["name"]], "cycle_tol": rng.choice([0.3, 0.5]), "ligands": []}
        for h in range(nh):
            ri = rng.randrange(1, len(host["res"]) - 1)          # not the residue the ring is closed at
            cyclig["ligands"].append(["%s#%d-%s#%d" % (host["name"], h, host["res"][ri], host["resids"][ri]), "LG#%d" % (nh + h)])
        bump(res, "rings_with_ligands")
    else:
        sysd = T.gen_system(rng, min_res=4 if cid[0] == "faults" else 1)
        if rng.random() < 0.3 and T.add_mass_overrides(rng, sysd):
            bump(res, "systems_with_per_atom_masses")
        if rng.random() < 0.2 and T.alias_residues(rng, sysd):
            bump(res, "systems_with_two_residues_under_one_name")
        if rng.random() < 0.25:
            t_ = rng.choice(sorted(sysd["atypes"]))
            sysd["atypes_defined_before"] = [(t_, round(sysd["atypes"][t_]["mass"] * rng.choice([0.5, 2.0, 3.0]), 1),
                                              sysd["atypes"][t_]["sigma"])]
            bump(res, "atom_types_defined_twice")
    text = T.render_top(sysd)
    with open(os.path.join(workdir, "s.top"), "w") as fh:
        fh.write(text)
    if cyclig is not None:
        kw = cyclig
        info = {"mode": "cyclig", "supplied": [], "centres": [], "box_src": "option", "box": cyclig["box"].tolist()}
    elif cid[0] == "faults" and rng.random() < 0.6:
        # supplied residues in the middle of chains, so that rewinds span residues that are not built
        kw, info = make_options(rng, sysd, workdir, res, allow=("c_res", "mc_res", "mc_res"))
    else:
        kw, info = make_options(rng, sysd, workdir, res)
    if kw is None:
        res["status"] = "rejected"
        return res
    if info["mode"] in ("c_res", "mc_res") and "start" not in kw and rng.random() < 0.4:
        # a (loose) distance restraint from a build file on a chain that comes with coordinates for some residues:
        # the restraint is worked out before the walk decides where the molecule is continued from
        lin = [mt for mt in sysd["moltypes"] if mt.get("shape") == "lin" and len(mt["res"]) >= 3 and
               any(n_ == mt["name"] for n_, _c in sysd["molecules"])]
        if lin:
            mt = rng.choice(lin)
            nall = sum(c_ for _n, c_ in sysd["molecules"])
            (Path(workdir) / "r.bld").write_text("[ molecule ]\n%s 0 %d\n[ distance_restraints ]\n0 %d %.3f 30.0\n" %
                                                 (mt["name"], nall, len(mt["res"]) - 1, 0.3 * (len(mt["res"]) - 1)))
            kw["build"] = [Path(workdir) / "r.bld"]
            bump(res, "restraint_with_supplied_residues")
            if mt["res"][0] == info.get("build_res"):
                bump(res, "restraint_with_supplied_residues_first_residue_rebuilt")
    outp = Path(workdir) / "o.gro"
    ctx_kw = {}
    if cid[0] == "faults":
        # schedule clause: the first k molecule attempts fail (injected at RandomWalk.run_molecule), with a small
        # number of allowed attempts so that the give-up-and-retry branch of the system builder is taken
        if rng.random() < 0.5:
            kw["maxiter"] = rng.choice([1, 2])
            ctx_kw["fail_attempts_left"] = rng.randint(1, 5)
            bump(res, "injected_failed_attempts", ctx_kw["fail_attempts_left"])
        else:
            # step level: a scripted success/failure schedule at the placement boundary (rewinds)
            kw["nrewind"] = rng.choice([2, 3, 4, 5])
            bits = [rng.random() < 0.75 for _ in range(rng.randint(6, 30))]
            ctx_kw["step_schedule"] = iter(bits)
            bump(res, "injected_step_schedules")
    run, ctx = CC.run_gen_coords(ctx_kw=ctx_kw, toppath=Path(workdir) / "s.top", outpath=outp, name="x", **kw)
    opts = {k: (v.tolist() if hasattr(v, "tolist") else str(v) if isinstance(v, (Path, list)) else v) for k, v in kw.items()}
    res["sample"] = {"system": T.describe(sysd), "options": opts, "mode": info["mode"]}
    res["sig"] = sig_of([text, opts])
    w = {"top": text, "options": opts}
    for f in ("in.gro", "in_mc.gro"):
        p = os.path.join(workdir, f)
        if os.path.exists(p):
            w[f] = open(p).read()
    if run["status"] != "ok":
        res["status"] = "rejected"
        bump(res, "rejected")
        note(res, "rejections", "%s: %s" % (info["mode"], run["error"][:110]))
        if run["exc_type"] not in ("OSError", "IOError", "FileNotFoundError"):
            violation(res, "crash:%s:%s" % (info["mode"], run["exc_type"]), "gen_coords stopped with %s\n%s" %
                      (run["error"], run.get("tb", "")[-500:]), w)
        return res
    bump(res, "injected_step_failures", ctx["stats"].get("injected_step_failures", 0))
    nmol = len(T.expand(sysd))
    res["nontrivial"] = nmol >= 2 or T.n_residues(sysd) >= 4
    if info["mode"] in ("c_full", "c_prefix", "c_res"):
        bump(res, "with_input_structure")
    if info["mode"] in ("mc", "mc_res"):
        bump(res, "with_meta_structure")
    if info["mode"] in ("c_res", "mc_res"):
        bump(res, "with_build_res")
    if info["mode"] == "start":
        bump(res, "with_start")
    if info["mode"] == "grid":
        bump(res, "with_grid")
    if any(r["vs"] for r in sysd["residues"].values()):
        bump(res, "virtual_site_systems")
    bump(res, "zero_mass_atoms", sum(1 for mt in T.expand(sysd) for rn in mt["res"]
                                     for a in sysd["residues"][rn]["atoms"] if a["mass"] == 0.0))
    note(res, "modes", info["mode"])
    if not outp.exists():
        violation(res, "no-output", "gen_coords returned without writing %s" % outp, w)
        return res
    gro, out = check_output(res, sysd, info, kw, outp)
    for key, msg in out:
        violation(res, key + ":" + info["mode"] if key.startswith("box") else key, msg, w)
    for what in ctx["nonfinite"][:1]:
        violation(res, "non-finite-position-in-engine", "non-finite point handed to the engine: %s" % (what,), w)
    return res
