"""C07 - build-file restraints hold for every residue they select."""
import os
from pathlib import Path

import numpy as np

from ..core import new_result, bump, violation, sig_of, note
from .. import attach
from . import _coords_common as CC

PID = "C07"
LEVEL = "exploration"
RULE = ("seeded build files for chains (5-14 residues, two residue names, 1-3 copies) and rings (4-10): sphere / "
        "cylinder / rectangle in/out restraints, rw_restriction (positive angles and negative ones > 90 deg), distance "
        "restraints with tolerances, -cycles with tolerance, persistence_length (WCM) - alone and mixed - through the "
        "real gen_coords in large and in small (many steps cross a face) boxes; the restraints are re-read from the "
        "generated build-file *spec* and evaluated on the final residue positions with an own implementation of the "
        "documented geometry, minimum-image distances and the search-tree parent of each residue; sampled end-to-end "
        "distances are captured at generate_end_end_distances. non-trivial = run in which >= 1 restraint selected "
        ">= 1 generated residue; distinct = hash(topology, build file, options)"
        ' Later modes: several restraints of one kind on a residue (shell), rings started inside / ring bonds in any order, two direction lines in one block (known finding), two restrained species of different residue size.')
ASSUMPTIONS = ["only satisfiable build files are generated (an unsatisfiable one makes the builder retry forever): 'in' "
               "regions cover the chain and are >= 2.5 nm, 'out' regions <= 2 nm, restrained distances in [one step, "
               "0.9 contour]",
               "the mean pair size along the restrained path is recomputed from the captured residue sizes",
               "geometric in/out comparisons are closed (+-1e-9)"]
CASE_TIMEOUT = 40
WALL = {"quick": 1200, "thorough": 10800}
MAX_TIMEOUTS = {"quick": 2, "thorough": 40}
REQUIRED = {"geometric_checks": 300, "direction_checks": 150, "direction_checks_wrapped": 15, "distance_checks": 60,
            "cycle_checks": 40, "persistence_checks": 20, "sampled_distances": 20, "multi_restraint_runs": 10,
            "regions_at_box_face": 15, "interleaved_molecule_names": 30, "several_restraints_of_one_kind": 30,
            "rings_started_inside": 15, "ring_bonds_listed_in_any_order": 20, "blocks_with_two_direction_lines": 30, "two_restrained_species": 30, "starts_at_a_restrained_residue": 30}
TOP = """[ defaults ]
1 2 no 1.0 1.0
[ atomtypes ]
A 36.0 0.0 A 0.47 3.5
B 36.0 0.0 A 0.40 3.5
C 36.0 0.0 A 0.62 3.5
[ moleculetype ]
M 1
[ atoms ]
{atoms}
[ bonds ]
{bonds}
{extra}[ system ]
x
[ molecules ]
{mols}
"""
_done = False


def setup():
    global _done
    CC.attach_all()
    if _done:
        return
    _done = True
    import polyply.src.persistence as pers

    def mk(orig):
        def generate_end_end_distances(specs, avg_step_length, max_path_length, box, *a, **k):
            out = orig(specs, avg_step_length, max_path_length, box, *a, **k)
            if CC.CTX:
                CC.CTX["e2e"].append({"samples": [float(x) for x in out], "avg_step": float(avg_step_length),
                                      "contour": float(max_path_length), "mol_idxs": [int(x) for x in specs.mol_idxs],
                                      "start": specs.start, "stop": specs.stop})
            return out
        return generate_end_end_distances
    attach.wrap_function(pers, "generate_end_end_distances", mk)


def plan(tier, seed):
    n = 780 if tier == "quick" else 6000
    modes = ["geom", "geom", "geom_edge", "rw", "rw", "rw_small", "dist", "cycle", "cycle", "pers", "mix", "two_dist", "shell", "two_rw", "dist2sp", "geom_start"]
    return [[modes[i % len(modes)], i] for i in range(n)]


def minimg(d, box):
    return d - box * np.round(d / box)


def geom_ok(kind, io, c, pars, p):
    d = c - p
    eps = 1e-9
    if kind == "sphere":
        r = np.linalg.norm(d)
        return r <= pars[0] + eps if io == "in" else r >= pars[0] - eps
    if kind == "cylinder":
        rad = np.linalg.norm(d[:2])
        if io == "in":
            return rad <= pars[0] + eps and abs(d[2]) <= pars[1] + eps
        return not (rad < pars[0] - eps and abs(d[2]) < pars[1] - eps)
    if kind == "rectangle":
        if io == "in":
            return all(abs(x) <= m + eps for x, m in zip(d, pars))
        return not all(abs(x) < m - eps for x, m in zip(d, pars))
    raise KeyError(kind)


def run_case(cid, rng, workdir):
    res = new_result()
    mode = cid[0]
    ring = mode == "cycle"
    nres = rng.randint(4, 10) if ring else rng.randint(5, 14)
    nm = rng.randint(1, 3)
    names = [rng.choice(["RA", "RB"]) for _ in range(nres)]
    atoms = ["%d %s %d %s X %d 0.0" % (k + 1, "A" if names[k] == "RA" else "B", k + 1, names[k], k + 1) for k in range(nres)]
    bonds = ["%d %d 1 0.35 1000" % (k, k + 1) for k in range(1, nres)]
    if ring:
        bonds.append("%d %d 1 0.35 1000" % (nres, 1))
        if rng.random() < 0.5:
            rng.shuffle(bonds)          # the closing bond need not be the last one listed
            bump(res, "ring_bonds_listed_in_any_order")
    mols = ["M %d" % nm]
    extra = ""
    # a second molecule type before M in some cases so that molecule indices do not start at 0
    lead = rng.choice([0, 0, 1, 2])
    if lead:
        extra = "[ moleculetype ]\nW 1\n[ atoms ]\n1 A 1 WAT W 1 0.0\n"
        mols = ["W %d" % lead] + mols
    # interleaved molecule names: the [ molecule ] block then names an index range that also covers molecules of
    # another name, which the block must not touch
    inter_w = 0
    if mode != "pers" and nm >= 2 and rng.random() < 0.4:
        inter_w = rng.randint(1, 2)
        if not lead:
            extra = "[ moleculetype ]\nW 1\n[ atoms ]\n1 A 1 WAT W 1 0.0\n"
        k = rng.randint(1, nm - 1)
        mols = (["W %d" % lead] if lead else []) + ["M %d" % k, "W %d" % inter_w, "M %d" % (nm - k)]
        bump(res, "interleaved_molecule_names")
    n_big = 0
    if mode == "dist2sp":
        # a second restrained species with larger residues, named first in the build file: every species has its own
        # average step in the window d - tol .. d + tol + step
        n_big = rng.randint(5, 8)
        extra += "[ moleculetype ]\nN 1\n[ atoms ]\n" + "\n".join("%d C %d RC Y %d 0.0" % (k + 1, k + 1, k + 1) for k in range(n_big)) + \
            "\n[ bonds ]\n" + "\n".join("%d %d 1 0.5 1000" % (k, k + 1) for k in range(1, n_big)) + "\n"
        mols = mols + ["N 1"]
    text = TOP.format(atoms="\n".join(atoms), bonds="\n".join(bonds), extra=extra, mols="\n".join(mols))
    with open(os.path.join(workdir, "c7.top"), "w") as fh:
        fh.write(text)
    small = mode in ("rw_small", "geom_edge")
    box = np.array([round(rng.uniform(3.0, 4.5), 3) for _ in range(3)]) if small else \
        np.array([round(rng.uniform(6.5, 9.0), 3) for _ in range(3)])
    bl = ["[ molecule ]", "M %d %d" % (lead, lead + nm + inter_w)]
    restr = []
    kw = {}

    def add_geom():
        kind = rng.choice(["sphere", "cylinder", "rectangle"])
        io = rng.choice(["in", "out"])
        c = np.array([round(x, 3) for x in box / 2])
        lo, hi = (2.5, 3.2) if io == "in" else (1.0, 2.0)
        pars = {"sphere": [rng.uniform(lo, hi)], "cylinder": [rng.uniform(lo, hi), rng.uniform(lo, hi)],
                "rectangle": [rng.uniform(lo, hi) for _ in range(3)]}[kind]
        pars = [round(x, 3) for x in pars]
        rn = rng.choice(["RA", "RB"])
        if io == "in":
            # an 'in' region must hold the whole chain: one directive per residue name
            for nm_ in ("RA", "RB"):
                bl.extend(["[ %s ]" % kind, "%s %d %d %s %.3f %.3f %.3f %s" % (nm_, 1, nres + 1, io, c[0], c[1], c[2],
                                                                          " ".join("%.3f" % x for x in pars))])
                restr.append(("geom", kind, io, c, pars, nm_, 1, nres + 1))
        else:
            a = rng.randint(1, nres)
            b = rng.randint(a + 1, nres + 1)
            bl.extend(["[ %s ]" % kind, "%s %d %d %s %.3f %.3f %.3f %s" % (rn, a, b, io, c[0], c[1], c[2],
                                                                      " ".join("%.3f" % x for x in pars))])
            restr.append(("geom", kind, io, c, pars, rn, a, b))

    def add_rw(a=None, b=None):
        rn = rng.choice(["RA", "RB"])
        a = rng.randint(2, nres) if a is None else a
        b = rng.randint(a + 1, nres + 1) if b is None else b
        ang = rng.choice([30, 45, 60, 90, -120, -150])
        normal = rng.choice([(0, 0, 1), (1, 0, 0), (0, 1, 0), (1, 1, 0)])
        bl.extend(["[ rw_restriction ]", "%s %d %d %d %d %d %d" % ((rn, a, b) + normal + (ang,))])
        restr.append(("rw", rn, a, b, np.array(normal, dtype=float), ang))

    def add_dist(a=None, b=None, lo=None, hi=None):
        a = 0 if a is None else a
        b = nres - 1 if b is None else b
        n_steps = b - a
        lo = 0.5 if lo is None else lo
        hi = 0.42 * 0.9 * n_steps if hi is None else hi
        if hi < lo:
            return None
        d = round(rng.uniform(lo, hi), 3)
        tol = rng.choice([0.0, 0.1, 0.3])
        bl.extend(["[ distance_restraints ]", "%d %d %.3f %s" % (a, b, d, tol)])
        restr.append(("dist", a, b, d, tol))
        return d

    if mode == "geom":
        add_geom()
    elif mode == "geom_start":
        # growth starts (-start) at a residue inside the chain that must stay out of a large sphere; the first residue of
        # the chain is not restrained: the start point is judged by the restraints of the residue that is put there
        c = np.array([round(x, 3) for x in box / 2])
        pars = [round(0.36 * float(np.min(box)), 3)]
        for nm_ in ("RA", "RB"):
            bl.extend(["[ sphere ]", "%s %d %d out %.3f %.3f %.3f %.3f" % (nm_, 2, nres + 1, c[0], c[1], c[2], pars[0])])
            restr.append(("geom", "sphere", "out", c, pars, nm_, 2, nres + 1))
        k0 = rng.randint(2, nres)
        kw["start"] = ["M-%s#%d" % (names[k0 - 1], k0)] if rng.random() < 0.5 else \
            ["M#%d-%s#%d" % (lead, names[k0 - 1], k0)]
        bump(res, "starts_at_a_restrained_residue")
    elif mode == "geom_edge":
        # forbidden region hugging a box face / edge / corner in a small box: residues that cross the opposite face
        # re-enter next to (or inside) it
        kind = rng.choice(["sphere", "cylinder", "rectangle"])
        c = np.array([round(rng.choice([0.2, box[k] - 0.2, box[k] / 2]), 3) for k in range(3)])
        c[rng.randrange(3)] = 0.2
        pars = {"sphere": [rng.uniform(1.0, 1.5)], "cylinder": [rng.uniform(0.9, 1.3), rng.uniform(0.9, 1.3)],
                "rectangle": [rng.uniform(0.8, 1.2) for _ in range(3)]}[kind]
        pars = [round(x, 3) for x in pars]
        for nm_ in ("RA", "RB"):
            bl.extend(["[ %s ]" % kind, "%s %d %d out %.3f %.3f %.3f %s" % (nm_, 1, nres + 1, c[0], c[1], c[2],
                                                                       " ".join("%.3f" % x for x in pars))])
            restr.append(("geom", kind, "out", c, pars, nm_, 1, nres + 1))
        bump(res, "regions_at_box_face")
    elif mode in ("rw", "rw_small"):
        add_rw()
    elif mode == "two_rw":
        # two growth-direction lines in one block, for two stretches of the chain
        k = rng.randint(3, nres - 1)
        add_rw(2, k)
        add_rw(k, nres + 1)
        restr[-2] = restr[-2] + ("earlier-line",)
        bump(res, "blocks_with_two_direction_lines")
    elif mode == "dist":
        add_dist()
        if rng.random() < 0.35:
            # growth told to start (-start, name or index form) at one of the two restrained chain ends
            k0 = rng.choice([1, nres])
            kw["start"] = ["M-%s#%d" % (names[k0 - 1], k0)] if rng.random() < 0.6 else \
                ["M#%d-%s#%d" % (lead, names[k0 - 1], k0)]
            bump(res, "distance_restraints_with_start_at_an_end")
    elif mode == "dist2sp":
        # a short target for a long chain: the free end crowds the upper end of the window, where the step term matters
        add_dist(lo=0.5, hi=0.8)
        n_idx = lead + nm + inter_w
        bl = ["[ molecule ]", "N %d %d" % (n_idx, n_idx + 1), "[ distance_restraints ]",
              "0 %d %.3f 0.3" % (n_big - 1, round(rng.uniform(1.0, 0.4 * (n_big - 1)), 3))] + bl
        bump(res, "two_restrained_species")
    elif mode == "two_dist":
        k = rng.randint(2, nres - 2)
        d1 = add_dist(0, k)
        rest = nres - 1 - k
        # jointly satisfiable: the second target must be reachable from where the first restraint puts residue k,
        # and its per-node lower bounds must not contradict the first one
        add_dist(0, nres - 1, lo=max(0.5, d1 - 0.3 * rest), hi=min(d1 + 0.3 * rest, (d1 + 0.3) * (nres - 1) / k * 0.9,
                                                                0.42 * 0.9 * (nres - 1)))
    elif mode == "cycle":
        kw["cycles"] = ["M"]
        kw["cycle_tol"] = rng.choice([0.0, 0.2, 0.5])
        restr.append(("cycle", kw["cycle_tol"]))
        bl = []
        if rng.random() < 0.4:
            # growth that starts somewhere inside the ring (-start with molecule name and index)
            k0 = rng.randint(2, nres)
            if rng.random() < 0.5:
                kw["start"] = ["M#%d-%s#%d" % (lead, names[k0 - 1], k0)]
            else:
                kw["start"] = ["M-%s#%d" % (names[k0 - 1], k0)]          # every ring of that name starts there
                bump(res, "rings_started_inside_by_molecule_name")
            bump(res, "rings_started_inside")
    elif mode == "shell":
        # several restraints of one kind on the same residues: a spherical shell (inside the large, outside the small
        # sphere) or two forbidden spheres
        c = np.array([round(x, 3) for x in box / 2])
        if rng.random() < 0.6:
            pairs = [("in", c, [round(rng.uniform(2.9, 3.2), 3)]), ("out", c, [round(rng.uniform(1.2, 2.0), 3)])]
        else:
            c2 = np.array([round(x, 3) for x in box / 2 + np.array([1.5, 0.0, 0.0])])
            pairs = [("out", c, [round(rng.uniform(1.0, 1.4), 3)]), ("out", c2, [round(rng.uniform(1.0, 1.4), 3)])]
        rng.shuffle(pairs)
        for io, cc, pars in pairs:
            for nm_ in ("RA", "RB"):
                bl.extend(["[ sphere ]", "%s %d %d %s %.3f %.3f %.3f %.3f" % (nm_, 1, nres + 1, io, cc[0], cc[1], cc[2], pars[0])])
                restr.append(("geom", "sphere", io, cc, pars, nm_, 1, nres + 1))
        bump(res, "several_restraints_of_one_kind")
    elif mode == "pers":
        lp = rng.choice([0.3, 0.5, 1.0])      # stiffer chains are sampled near full extension, which the walk almost never reaches
        if rng.random() < 0.3:
            bl.extend(["[ persistence_length ]", "WCM %s %d %d" % (lp, nres - 1, 0)])      # the ends named last to first
            bump(res, "persistence_blocks_named_last_to_first")
        else:
            bl.extend(["[ persistence_length ]", "WCM %s %d %d" % (lp, 0, nres - 1)])
        restr.append(("pers", 0, nres - 1, lp))
    else:
        add_geom()
        add_rw()
        bump(res, "multi_restraint_runs")
    if bl:
        with open(os.path.join(workdir, "c7.bld"), "w") as fh:
            fh.write("\n".join(bl) + "\n")
        kw["build"] = [Path(workdir) / "c7.bld"]
    run, ctx = CC.run_gen_coords(toppath=Path(workdir) / "c7.top", outpath=Path(workdir) / "c7.gro", name="x",
                                 box=box, maxiter=80, **kw)
    w = {"top": text, "build_file": "\n".join(bl), "box": box.tolist(), "options": {k: str(v) for k, v in kw.items()}}
    res["sample"] = {"mode": mode, "residues": names, "copies": nm, "leading_molecules": lead, "build_file": bl,
                     "box": box.tolist(), "options": {k: str(v) for k, v in kw.items() if k != "build"}}
    res["sig"] = sig_of([text, bl, box.tolist(), sorted(kw)])
    if run["status"] != "ok":
        res["status"] = "rejected"
        note(res, "rejections", "%s: %s" % (mode, run["error"][:110]))
        if run["exc_type"] not in ("OSError", "IOError"):
            violation(res, "crash:%s:%s" % (mode, run["exc_type"]), "gen_coords stopped with %s\n%s" %
                      (run["error"], run.get("tb", "")[-400:]), w)
        return res
    topo = ctx["topology"]
    eng = ctx["engine"]
    nchecks = 0
    for mi, m in enumerate(topo.molecules):
        if m.mol_name != "M":
            continue
        tree = m.search_tree
        pos = {nd: np.array(m.nodes[nd]["position"], dtype=float) for nd in m.nodes}
        sizes = {nd: topo.volumes[m.nodes[nd].get("template", m.nodes[nd]["resname"])] for nd in m.nodes}
        for r in restr:
            if r[0] == "geom":
                for nd in m.nodes:
                    if m.nodes[nd]["resname"] == r[5] and r[6] <= m.nodes[nd]["resid"] < r[7]:
                        bump(res, "geometric_checks")
                        nchecks += 1
                        if not geom_ok(r[1], r[2], r[3], r[4], pos[nd]):
                            violation(res, "geometric-restraint-violated:%s-%s" % (r[1], r[2]),
                                      "residue %s%d of molecule %d at %s is not %s the %s centred %s with %s" %
                                      (r[5], m.nodes[nd]["resid"], mi, pos[nd].tolist(), r[2], r[1], r[3].tolist(), r[4]), w)
            elif r[0] == "rw":
                for nd in m.nodes:
                    if m.nodes[nd]["resname"] == r[1] and r[2] <= m.nodes[nd]["resid"] < r[3]:
                        par = list(tree.predecessors(nd))
                        if not par:
                            continue
                        bump(res, "direction_checks")
                        nchecks += 1
                        raw = pos[nd] - pos[par[0]]
                        v = minimg(raw, box)
                        wrapped = not np.allclose(raw, v)
                        if wrapped:
                            bump(res, "direction_checks_wrapped")
                        n = r[4]
                        dot = float(np.dot(n, v))
                        ang = float(np.degrees(np.arccos(np.clip(dot / (np.linalg.norm(v) * np.linalg.norm(n)), -1, 1))))
                        if np.sign(dot) != np.sign(r[5]) or ang > abs(r[5]) + 1e-6:
                            violation(res, "growth-direction-violated:%s" % ("earlier-rw_restriction-line-of-the-block" if len(r) > 6 else
                                                                              "step-across-face" if wrapped else "direct-step"),
                                      "residue %s%d grown from %s: step %s makes %.1f deg with the normal %s (sign %+d), "
                                      "allowed: sign %+d and at most %d deg" %
                                      (r[1], m.nodes[nd]["resid"], par[0], v.round(3).tolist(), ang, n.tolist(), int(np.sign(dot)),
                                       int(np.sign(r[5])), abs(r[5])), w)
            elif r[0] in ("dist", "pers", "cycle"):
                if r[0] == "cycle":
                    # the closing edge = the edge of the ring that the growth tree does not use (every tree edge is one
                    # step long by construction, so this is the only bonded residue pair that has to be 'closed')
                    closing = [(x, y) for x, y in m.edges if not tree.has_edge(x, y) and not tree.has_edge(y, x)]
                    if len(closing) != 1:
                        violation(res, "cycle-closing-edge-ambiguous", "ring of %d residues: growth tree leaves %d residue-graph "
                                  "edges unused" % (len(m.nodes), len(closing)), w)
                        continue
                    a, b = closing[0]
                    d, tol = 0.0, r[1]
                    key = "cycle_checks"
                elif r[0] == "dist":
                    a, b, d, tol = r[1], r[2], r[3], r[4]
                    key = "distance_checks"
                else:
                    a, b = r[1], r[2]
                    smp = [e for e in ctx["e2e"] if mi in e["mol_idxs"]]
                    if not smp:
                        violation(res, "persistence-not-sampled", "no end-to-end distance was sampled for molecule %d" % mi, w)
                        continue
                    e = smp[0]
                    d = e["samples"][e["mol_idxs"].index(mi)]
                    tol = 0.0
                    key = "persistence_checks"
                    bump(res, "sampled_distances")
                    path_sizes = [(sizes[k] + sizes[k + 1]) / 2 for k in range(a, b)]
                    step = float(np.mean(path_sizes))
                    contour = float(np.sum(path_sizes))
                    if d < step * (1 - 1e-9) or d > contour * (1 + 1e-9):
                        violation(res, "sampled-distance-out-of-range", "sampled end-to-end distance %.4f outside [one step "
                                  "%.4f, contour %.4f]" % (d, step, contour), w)
                bump(res, key)
                nchecks += 1
                dist = float(np.linalg.norm(minimg(pos[a] - pos[b], box)))
                lo_, hi_ = min(a, b), max(a, b)
                if r[0] == "cycle":
                    avg = float(np.mean([(sizes[k] + sizes[k + 1]) / 2 for k in range(0, len(m.nodes) - 1)]))
                else:
                    avg = float(np.mean([(sizes[k] + sizes[k + 1]) / 2 for k in range(lo_, hi_)]))
                if not (d - tol - 1e-9 <= dist <= d + tol + avg + 1e-9):
                    violation(res, "%s-restraint-violated" % {"dist": "distance", "pers": "persistence", "cycle": "cycle-closure"}[r[0]],
                              "molecule %d: residues %d and %d end %.4f nm apart; allowed [%.4f, %.4f] (d=%.4f tol=%s mean pair "
                              "size %.4f)" % (mi, a, b, dist, d - tol, d + tol + avg, d, tol, avg), w)
    res["nontrivial"] = nchecks > 0
    bump(res, "placements_checked", ctx["stats"].get("placements_checked", 0))
    return res
