"""C18 - build options select exactly the molecules and residues they name."""
import os
from pathlib import Path

import numpy as np

from ..core import new_result, bump, violation, sig_of, note
from . import _coords_common as CC

PID = "C18"
LEVEL = "exploration"
RULE = ("seeded topologies with repeated molecule names in [molecules] (e.g. CH 2 / W 3 / CH 1 / LG 2) and build files "
        "with several [ molecule ] blocks (overlapping, adjacent, empty index ranges, ranges spanning molecules of other "
        "names) carrying geometric restraints, rw_restriction, distance_restraints and persistence_length with "
        "overlapping / adjacent residue-id ranges; -start and -lig option strings with omitted fields; -split "
        "specifications. The real load_build_files + sample_end_to_end_distances + set_restraints, "
        "find_starting_node_from_spec, AnnotateLigands and MetaMolecule.split_residue are driven on the parsed topology "
        "and the node attributes / molecule lists are compared with a selection semantics written from the statement "
        "(name and index in [a,b); residue name and id in [a,b)); ligands are additionally built end-to-end by "
        "gen_coords and must sit one step (minimum image) from their host residue and be handed back. non-trivial = "
        "case in which >= 1 option selected >= 1 residue; distinct = hash(topology, build file / option strings)"
        ' Later: ligand host given by residue only (neither molecule name nor index).')
ASSUMPTIONS = ["distance restraints are generated on linear molecules only (branched ones are rejected by the program)",
               "one rw_restriction per [ molecule ] block (the statement does not say how several combine)"]
CASE_TIMEOUT = 240
WALL = {"quick": 1200, "thorough": 10800}
MAX_TIMEOUTS = {"quick": 1, "thorough": 20}
REQUIRED = {"build_files": 300, "residue_selections_checked": 5000, "molecule_blocks": 600, "ranges_spanning_other_names": 100,
            "start_specs": 150, "ligand_specs": 100, "ligands_built": 40, "split_specs": 100, "distance_restraint_blocks": 100,
            "persistence_blocks": 60, "multi_residue_ligands": 15, "split_with_start_runs": 20, "ligand_specs_without_host_molecule": 10,
            "split_runs_with_a_string_for_an_absent_residue": 30,
            "build_files_on_chains_numbered_out_of_order": 50}
_done = False


def setup():
    CC.attach_all()


def plan(tier, seed):
    n = 1500 if tier == "quick" else 12000
    return [["bld", i] for i in range(n)] + [["start", i] for i in range(n // 3)] + [["lig", i] for i in range(n // 5)] + \
        [["split", i] for i in range(n // 4)] + [["splitstart", i] for i in range(n // 15)]


def gen_top(rng, lig=False, graft=False):
    """molecule types CH (linear, residues RA/RB), BR (other chain), W (solvent), LG (ligand)"""
    L = ["[ defaults ]", "1 2 no 1.0 1.0", "[ atomtypes ]", "A 36.0 0.0 A 0.47 2.0", "B 36.0 0.0 A 0.40 2.0"]
    mts = {}

    def chain(name, n):
        res = [rng.choice(["RA", "RB"]) for _ in range(n)]
        L.extend(["[ moleculetype ]", "%s 1" % name, "[ atoms ]"])
        rids = list(range(1, n + 1))
        if graft and name == "BR" and n >= 4:
            # a residue listed (and bonded) out of the order of the residue numbers, as in a grafted chain: 1 2 n 3 4 ...
            k = rng.randint(1, n - 2)
            rids = rids[:k] + [n] + rids[k:n - 1]
        for i, rn in enumerate(res):
            L.append("%d %s %d %s X %d 0.0" % (i + 1, "A" if rn == "RA" else "B", rids[i], rn, i + 1))
        if n > 1:
            L.append("[ bonds ]")
            for i in range(1, n):
                L.append("%d %d 1 0.35 1000" % (i, i + 1))
        mts[name] = res
    chain("CH", rng.randint(5, 9))
    chain("BR", rng.randint(3, 6))
    L.extend(["[ moleculetype ]", "W 1", "[ atoms ]", "1 A 1 WAT W 1 0.0"])
    mts["W"] = ["WAT"]
    L.extend(["[ moleculetype ]", "LG 1", "[ atoms ]", "1 B 1 LIG L 1 0.0"])
    mts["LG"] = ["LIG"]
    # a ligand molecule with two residues
    L.extend(["[ moleculetype ]", "LG2 1", "[ atoms ]", "1 B 1 LA L 1 0.0", "2 A 2 LB L 2 0.0", "[ bonds ]", "1 2 1 0.35 1000"])
    mts["LG2"] = ["LA", "LB"]
    order = []
    for _ in range(rng.randint(3, 6)):
        order.append((rng.choice(["CH", "CH", "BR", "W", "LG", "LG2"] if lig else ["CH", "CH", "BR", "W"]), rng.randint(1, 3)))
    if not any(n == "CH" for n, _ in order):
        order.insert(rng.randrange(len(order) + 1), ("CH", 2))
    if lig and not any(n == "LG" for n, _ in order):
        order.append(("LG", rng.randint(1, 3)))
    if lig and not any(n == "LG2" for n, _ in order) and rng.random() < 0.6:
        order.insert(rng.randrange(len(order) + 1), ("LG2", rng.randint(1, 2)))
    L.extend(["[ system ]", "x", "[ molecules ]"] + ["%s %d" % x for x in order])
    inst = [n for n, c in order for _ in range(c)]
    return "\n".join(L) + "\n", mts, inst


def load(text, workdir):
    from polyply.src.topology import Topology
    p = os.path.join(workdir, "c18.top")
    with open(p, "w") as fh:
        fh.write(text)
    top = Topology.from_gmx_topfile(name="x", path=p)
    top.preprocess()
    return top


def run_case(cid, rng, workdir):
    res = new_result()
    kind = cid[0]
    if kind == "bld":
        return run_build_file(rng, workdir, res)
    if kind == "start":
        return run_start(rng, workdir, res)
    if kind == "lig":
        return run_ligands(rng, workdir, res)
    if kind == "splitstart":
        return run_split_start(rng, workdir, res)
    return run_split(rng, workdir, res)


# ----------------------------------------------------------------------------- build file selections
def run_build_file(rng, workdir, res):
    from polyply.src.load_library import load_build_files
    from polyply.src.generate_templates import GenerateTemplates
    from polyply.src.nonbond_engine import NonBondEngine
    from polyply.src.persistence import sample_end_to_end_distances
    from polyply.src.restraints import set_restraints
    graft = rng.random() < 0.3
    text, mts, inst = gen_top(rng, graft=graft)
    if graft:
        bump(res, "build_files_on_chains_numbered_out_of_order")
    nmol = len(inst)
    bl = []
    blocks = []
    dkind = rng.choice(["dist", "pers"])        # one kind per build file keeps the mechanism keys unambiguous
    for _ in range(rng.randint(1, 4)):
        name = rng.choice(["CH", "CH", "BR", "W"])
        idxs = [i for i, n in enumerate(inst) if n == name]
        style = rng.choice(["exact", "span", "adjacent", "empty", "single"])
        if not idxs:
            continue
        if style == "exact":
            a, b = idxs[0], idxs[0] + 1
            while b < nmol and inst[b] == name:
                b += 1
        elif style == "span":
            a, b = min(idxs), max(idxs) + 1          # spans molecules of other names in between
        elif style == "adjacent":
            a = rng.choice(idxs)
            b = min(nmol, a + rng.randint(1, 3))
        elif style == "empty":
            a = rng.choice(idxs)
            b = a
        else:
            a = rng.choice(idxs)
            b = a + 1
        blk = {"name": name, "a": a, "b": b, "directives": []}
        bl.append("[ molecule ]")
        bl.append("%s %d %d" % (name, a, b))
        spans_other = any(inst[i] != name for i in range(a, b))
        nres = len(mts[name])
        for _ in range(rng.randint(1, 3)):
            d = rng.choice(["geom", "geom", "rw", dkind, dkind])
            if d == "pers" and a == b:
                d = "geom"
            if d == "geom":
                gk = rng.choice(["sphere", "cylinder", "rectangle"])
                rn = rng.choice(["RA", "RB", "WAT"])
                s = rng.randint(0, nres)
                e = rng.randint(s, nres + 2)
                pars = {"sphere": "4.0", "cylinder": "4.0 4.0", "rectangle": "4.0 4.0 4.0"}[gk]
                bl += ["[ %s ]" % gk, "%s %d %d in 5.0 5.0 5.0 %s" % (rn, s, e, pars)]
                blk["directives"].append(("restraints", rn, s, e, gk))
            elif d == "rw" and not any(x[0] == "rw_options" for x in blk["directives"]):
                rn = rng.choice(["RA", "RB"])
                s = rng.randint(1, nres)
                e = rng.randint(s, nres + 2)
                bl += ["[ rw_restriction ]", "%s %d %d 0 0 1 %d" % (rn, s, e, rng.choice([30, 60, 90]))]
                blk["directives"].append(("rw_options", rn, s, e, "rw"))
            elif d == "dist" and name in ("CH", "BR") and nres >= 4:
                x = rng.randint(0, nres - 3)
                y = rng.randint(x + 2, nres - 1)
                bl += ["[ distance_restraints ]", "%d %d %.3f 0.1" % (x, y, rng.uniform(0.5, 0.3 * (y - x) + 0.4))]
                blk["directives"].append(("dist", x, y))
                bump(res, "distance_restraint_blocks")
            elif d == "pers" and name in ("CH", "BR") and nres >= 4 and not any(x[0] in ("pers", "dist") for x in blk["directives"]):
                bl += ["[ persistence_length ]", "WCM %.1f 0 %d" % (rng.choice([1.0, 2.0]), nres - 1)]
                blk["directives"].append(("pers", 0, nres - 1))
                bump(res, "persistence_blocks")
        blocks.append(blk)
        bump(res, "molecule_blocks")
        if spans_other:
            bump(res, "ranges_spanning_other_names")
    if not blocks:
        res["status"] = "rejected"
        return res
    bpath = os.path.join(workdir, "c18.bld")
    with open(bpath, "w") as fh:
        fh.write("\n".join(bl) + "\n")
    bump(res, "build_files")
    res["sig"] = sig_of([text, bl])
    res["sample"] = {"molecules": inst, "build_file": bl}
    w = {"top": text, "build_file": "\n".join(bl), "molecules": inst}
    top = load(text, workdir)
    try:
        load_build_files(top, None, [Path(bpath)])
        GenerateTemplates(topology=top, max_opt=10, skip_filter=False).run_system(top)
        box = np.array([12.0, 12.0, 12.0])
        eng = NonBondEngine.from_topology(top.molecules, top, box)
        sample_end_to_end_distances(top, eng, seed=rng.randrange(10 ** 6))
        set_restraints(top, eng)
    except Exception as err:      # noqa
        if type(err).__name__ == "CaseTimeout":
            raise
        spans = any(any(inst[i] != b["name"] for i in range(b["a"], b["b"])) for b in blocks)
        key = "build-file-rejected:%s%s" % (type(err).__name__, ":range-spans-other-molecule-names" if spans else "")
        has_dp = sorted({d[0] for b in blocks for d in b["directives"] if d[0] in ("dist", "pers")})
        if spans and has_dp:
            key = "restraint-applied-by-index-ignoring-molecule-name:" + "+".join(has_dp)
        violation(res, key, "a build file whose [ molecule ] blocks name existing molecules is rejected: %s: %s" %
                  (type(err).__name__, str(err)[:200]), w)
        return res
    # expectation per molecule / residue
    nsel = 0
    for mi, mol in enumerate(top.molecules):
        exp = {"restraints": {}, "rw_options": {}}
        exp_dist = False
        for b in blocks:
            if b["name"] != inst[mi] or not (b["a"] <= mi < b["b"]):
                continue
            for d in b["directives"]:
                if d[0] in ("restraints", "rw_options"):
                    for nd in mol.nodes:
                        if mol.nodes[nd]["resname"] == d[1] and d[2] <= mol.nodes[nd]["resid"] < d[3]:
                            exp[d[0]][nd] = exp[d[0]].get(nd, 0) + 1
                else:
                    exp_dist = True
        for nd in mol.nodes:
            bump(res, "residue_selections_checked")
            for attr in ("restraints", "rw_options"):
                got = len(mol.nodes[nd].get(attr, []))
                want = exp[attr].get(nd, 0)
                if want:
                    nsel += 1
                if got != want:
                    other = inst[mi] not in {b["name"] for b in blocks if b["a"] <= mi < b["b"]}
                    nrw = sum(1 for b in blocks if b["name"] == inst[mi] and b["a"] <= mi < b["b"]
                              and any(d[0] == "rw_options" for d in b["directives"]))
                    suffix = ":molecule-of-other-name" if got > want and other else ""
                    if attr == "rw_options" and got < want and nrw >= 2:
                        suffix = ":several-molecule-blocks-with-rw_restriction"
                    violation(res, "%s-on-%s" % (attr, "unselected-residue" if got > want else "selected-residue-missing") + suffix,
                              "molecule %d (%s) residue %s%d carries %d %s entries, the build file selects it %d times" %
                              (mi, inst[mi], mol.nodes[nd]["resname"], mol.nodes[nd]["resid"], got, attr, want), w)
        has = any("distance_restraints" in mol.nodes[nd] for nd in mol.nodes)
        if exp_dist:
            nsel += 1
        if has != exp_dist:
            kinds = sorted({d[0] for b in blocks if b["a"] <= mi < b["b"] for d in b["directives"] if d[0] in ("dist", "pers")})
            violation(res, ("restraint-applied-by-index-ignoring-molecule-name:%s" % "+".join(kinds)) if has else "distance-restraint-missing",
                      "molecule %d (%s): distance restraints present=%s, selected by a [ molecule ] block of its name=%s" %
                      (mi, inst[mi], has, exp_dist), w)
    res["nontrivial"] = nsel > 0
    return res


# ----------------------------------------------------------------------------- -start
def run_start(rng, workdir, res):
    from polyply.src.gen_coords import find_starting_node_from_spec
    text, mts, inst = gen_top(rng)
    top = load(text, workdir)
    specs = []
    exp = {i: None for i in range(len(inst))}
    used = set()
    for _ in range(rng.randint(1, 3)):
        name = rng.choice(sorted(set(inst)))
        idxs = [i for i, n in enumerate(inst) if n == name]
        resnames = mts[name]
        ri = rng.randrange(len(resnames))
        style = rng.choice(["full", "noidx", "noname", "noresid"])
        mi = rng.choice(idxs)
        rn = resnames[ri]
        first_of_name = next(k for k, x in enumerate(resnames) if x == rn)
        if style == "full":
            spec, targets, node = "%s#%d-%s#%d" % (name, mi, rn, ri + 1), [mi], ri
        elif style == "noidx":
            spec, targets, node = "%s-%s#%d" % (name, rn, ri + 1), idxs, ri
        elif style == "noname":
            spec, targets, node = "#%d-%s#%d" % (mi, rn, ri + 1), [mi], ri
        else:
            spec, targets, node = "%s#%d-%s" % (name, mi, rn), [mi], first_of_name
        if any(t in used for t in targets):
            continue
        used.update(targets)
        specs.append(spec)
        for t in targets:
            exp[t] = node
    bump(res, "start_specs", len(specs))
    res["sig"] = sig_of([text, specs])
    res["sample"] = {"molecules": inst, "start": specs}
    res["nontrivial"] = bool(specs)
    w = {"top": text, "start": specs, "molecules": inst}
    try:
        got = find_starting_node_from_spec(top, specs)
    except Exception as err:      # noqa
        if type(err).__name__ == "CaseTimeout":
            raise
        violation(res, "start-spec-rejected:%s" % type(err).__name__, "%s: %s" % (type(err).__name__, str(err)[:150]), w)
        return res
    for mi in exp:
        bump(res, "residue_selections_checked")
        if got.get(mi) != exp[mi]:
            violation(res, "start-node-wrong:%s" % ("index-0" if mi == 0 else "other-index"),
                      "molecule %d (%s): start node %r, the specifications %s select %r" % (mi, inst[mi], got.get(mi), specs, exp[mi]), w)
    return res


# ----------------------------------------------------------------------------- -lig
def run_ligands(rng, workdir, res):
    text, mts, inst = gen_top(rng, lig=True)
    lname = "LG2" if (rng.random() < 0.4 and "LG2" in inst) else "LG"
    ligs = [i for i, n in enumerate(inst) if n == lname]
    hosts = [i for i, n in enumerate(inst) if n == "CH"]
    if not ligs or not hosts:
        res["status"] = "rejected"
        return res
    specs = []
    expect = []          # (host mol, host node, ligand mol)
    avail = list(ligs)
    if rng.random() < 0.25:
        # host given by residue only (neither molecule name nor index): every molecule that has such a residue gets
        # one of the ligands of that name, handed out in topology order
        rn = rng.choice(["RA", "RB"])
        ri = rng.randrange(3)
        hits = [i for i, nme in enumerate(inst) if nme in ("CH", "BR") and ri < len(mts[nme]) and mts[nme][ri] == rn]
        if hits and len(hits) <= len(ligs):
            specs.append(["-%s#%d" % (rn, ri + 1), lname])
            for k_, h in enumerate(hits):
                expect.append((h, ri, ligs[k_]))
            avail = []
            bump(res, "ligand_specs_without_host_molecule")
    for _ in range(rng.randint(1, 2) if not specs else 0):
        if not avail:
            break
        h = rng.choice(hosts)
        resn = mts["CH"]
        ri = rng.randrange(len(resn))
        style = rng.choice(["idx", "idx", "name"])
        if style == "idx":
            lg = avail.pop(0) if rng.random() < 0.6 else avail.pop(rng.randrange(len(avail)))
            specs.append(["CH#%d-%s#%d" % (h, resn[ri], ri + 1), "%s#%d" % (lname, lg)])
            expect.append((h, ri, lg))
        else:
            # ligand given by name: the ligands of that name are handed out in topology order
            lg = ligs[0]
            if lg not in avail:
                continue
            avail.remove(lg)
            specs.append(["#%d-%s#%d" % (h, resn[ri], ri + 1), lname])
            expect.append((h, ri, lg))
    if not specs:
        res["status"] = "rejected"
        return res
    bump(res, "ligand_specs", len(specs))
    with open(os.path.join(workdir, "c18.top"), "w") as fh:
        fh.write(text)
    res["sig"] = sig_of([text, specs])
    res["sample"] = {"molecules": inst, "ligands": specs}
    res["nontrivial"] = True
    w = {"top": text, "ligands": specs, "molecules": inst}
    box = np.array([9.0, 9.0, 9.0])
    run, ctx = CC.run_gen_coords(toppath=Path(workdir) / "c18.top", outpath=Path(workdir) / "c18.gro", name="x", box=box,
                                 ligands=specs)
    if run["status"] != "ok":
        res["status"] = "rejected"
        violation(res, "ligand-spec-rejected:%s" % run["exc_type"], "gen_coords -lig %s stopped with %s\n%s" %
                  (specs, run["error"], run.get("tb", "")[-300:]), w)
        return res
    topo = ctx["topology"]
    if [m.mol_name for m in topo.molecules] != inst:
        violation(res, "molecule-list-changed-by-ligands", "molecule list %s, topology has %s" % ([m.mol_name for m in topo.molecules], inst), w)
        return res
    for mi, m in enumerate(topo.molecules):
        if len(m.nodes) != len(mts[inst[mi]]) or any("ligated" in m.nodes[n] for n in m.nodes):
            violation(res, "ligand-not-handed-back", "molecule %d (%s) has %d residues after building, its type has %d" %
                      (mi, inst[mi], len(m.nodes), len(mts[inst[mi]])), w)
            return res
    if lname == "LG2":
        bump(res, "multi_residue_ligands")
    for h, ri, lg in expect:
        bump(res, "ligands_built")
        hp = np.array(topo.molecules[h].nodes[ri]["position"], dtype=float)
        for lnode in topo.molecules[lg].nodes:          # every residue of the ligand is attached to the host residue
            lp = np.array(topo.molecules[lg].nodes[lnode]["position"], dtype=float)
            d = float(np.linalg.norm(CC.minimg(hp - lp, box)))
            sa = topo.volumes[topo.molecules[h].nodes[ri].get("template", topo.molecules[h].nodes[ri]["resname"])]
            sb = topo.volumes[topo.molecules[lg].nodes[lnode].get("template", topo.molecules[lg].nodes[lnode]["resname"])]
            step = 1.0 * (sa + sb) / 2
            if abs(d - step) > 1e-6:
                # which ligand sits there instead?
                near = [j for j in [i for i, n in enumerate(inst) if n == lname]
                        if abs(np.linalg.norm(CC.minimg(hp - np.array(topo.molecules[j].nodes[0]["position"]), box)) - step) < 1e-6]
                kind = "another-ligand-there" if near else "nothing-there"
                if len(topo.molecules[lg].nodes) > 1:
                    kind += ":multi-residue-ligand"
                violation(res, "ligand-not-one-step-from-host:%s" % kind,
                          "residue %s of ligand molecule %d is %.4f nm from residue %d of molecule %d (one step = %.4f); ligands at "
                          "one step: %s" % (lnode, lg, d, ri + 1, h, step, near), w)
                break
    return res


# ----------------------------------------------------------------------------- -split
def run_split(rng, workdir, res):
    from polyply.src.topology import Topology
    L = ["[ defaults ]", "1 2 no 1.0 1.0", "[ atomtypes ]", "A 36.0 0.0 A 0.47 2.0", "[ moleculetype ]", "M 1", "[ atoms ]"]
    nres = rng.randint(1, 4)
    atoms = []
    k = 1
    resdef = {}
    for rn in ("RA", "RB"):
        resdef[rn] = ["%s%d" % (rn[1], i) for i in range(rng.randint(2, 5))]
    seq = [rng.choice(["RA", "RB"]) for _ in range(nres)]
    first = []
    bonds = []
    for ri, rn in enumerate(seq):
        first.append(k)
        for j, a in enumerate(resdef[rn]):
            L.append("%d A %d %s %s %d 0.0" % (k, ri + 1, rn, a, k))
            atoms.append((ri, rn, a))
            if j:
                bonds.append("%d %d 1 0.3 1000" % (k - 1, k))
            k += 1
    for i in range(nres - 1):
        bonds.append("%d %d 1 0.3 1000" % (first[i], first[i + 1]))
    L += ["[ bonds ]"] + bonds + ["[ system ]", "x", "[ molecules ]", "M 1"]
    text = "\n".join(L) + "\n"
    target = rng.choice(sorted(set(seq)))
    names = list(resdef[target])
    rng.shuffle(names)
    ncut = rng.randint(1, max(1, len(names) - 1))
    parts = [names[:ncut], names[ncut:]] if names[ncut:] else [names]
    newnames = ["N%d" % i for i in range(len(parts))]
    spec = target + ":" + ":".join("%s-%s" % (nn, ",".join(p)) for nn, p in zip(newnames, parts))
    bump(res, "split_specs")
    res["sig"] = sig_of([text, spec])
    res["sample"] = {"residues": seq, "split": spec}
    res["nontrivial"] = True
    w = {"top": text, "split": spec}
    top = load(text, workdir)
    mm = top.molecules[0]
    before = [(mm.molecule.nodes[n]["atomname"], mm.molecule.nodes[n]["resname"], mm.molecule.nodes[n]["resid"]) for n in sorted(mm.molecule.nodes)]
    specs = [spec]
    if rng.random() < 0.4:
        # a further split string for a residue of another molecule type: it selects nothing here, whichever comes first
        specs.insert(rng.randint(0, 1), "RZ:Q0-Z0:Q1-Z1,Z2")
        bump(res, "split_runs_with_a_string_for_an_absent_residue")
        w["split"] = specs
    try:
        mm.split_residue(specs)
    except Exception as err:      # noqa
        if type(err).__name__ == "CaseTimeout":
            raise
        violation(res, "split-spec-rejected:%s" % type(err).__name__, "%s: %s" % (type(err).__name__, str(err)[:150]), w)
        return res
    after = [(mm.molecule.nodes[n]["atomname"], mm.molecule.nodes[n]["resname"]) for n in sorted(mm.molecule.nodes)]
    if len(after) != len(before):
        violation(res, "split-changes-atom-count", "%d atoms before, %d after" % (len(before), len(after)), w)
        return res
    part_of = {a: nn for nn, p in zip(newnames, parts) for a in p}
    for (an, rn_old, rid), (an2, rn_new) in zip(before, after):
        bump(res, "residue_selections_checked")
        want = part_of[an] if rn_old == target else rn_old
        if an != an2 or rn_new != want:
            violation(res, "split-atom-in-wrong-residue", "atom %s of %s%d is now in residue %s, the specification puts it in %s" %
                      (an, rn_old, rid, rn_new, want), w)
            break
    # residue graph: every atom in exactly one residue node; new residues hold exactly their named atoms
    seen = {}
    for nd in mm.nodes:
        for a in mm.nodes[nd]["graph"].nodes:
            seen[a] = seen.get(a, 0) + 1
    if sorted(seen) != sorted(mm.molecule.nodes) or any(v != 1 for v in seen.values()):
        violation(res, "split-loses-or-duplicates-atoms", "atoms per residue-graph node: %s" % seen, w)
    for nd in mm.nodes:
        rn = mm.nodes[nd]["resname"]
        got = sorted(mm.molecule.nodes[a]["atomname"] for a in mm.nodes[nd]["graph"].nodes)
        if rn in newnames:
            want = sorted(parts[newnames.index(rn)])
            if got != want:
                violation(res, "split-residue-has-wrong-atoms", "new residue %s holds %s, specification says %s" % (rn, got, want), w)
    return res


# ----------------------------------------------------------------------------- -split together with -start (end to end)
def run_split_start(rng, workdir, res):
    """every residue is split (the program cannot back-map unsplit residues next to split ones); the start residue is
    named by its *new* residue name, so it can only be found after the split"""
    nres = rng.randint(2, 5)
    nat = rng.randint(2, 4)
    names = ["P%d" % i for i in range(nat)]
    L = ["[ defaults ]", "1 2 no 1.0 1.0", "[ atomtypes ]", "A 36.0 0.0 A 0.47 2.0", "[ moleculetype ]", "M 1", "[ atoms ]"]
    k = 1
    bonds = []
    first = []
    for ri in range(nres):
        first.append(k)
        for j, a in enumerate(names):
            L.append("%d A %d RA %s %d 0.0" % (k, ri + 1, a, k))
            if j:
                bonds.append("%d %d 1 0.3 1000" % (k - 1, k))
            k += 1
    for i in range(nres - 1):
        bonds.append("%d %d 1 0.3 1000" % (first[i] + nat - 1, first[i + 1]))
    L += ["[ bonds ]"] + bonds + ["[ system ]", "x", "[ molecules ]", "M %d" % rng.randint(1, 2)]
    text = "\n".join(L) + "\n"
    cut = rng.randint(1, nat - 1)
    spec = "RA:N0-%s:N1-%s" % (",".join(names[:cut]), ",".join(names[cut:]))
    target = rng.choice(["N0", "N1"])
    start = ["M#0-%s" % target]
    with open(os.path.join(workdir, "ss.top"), "w") as fh:
        fh.write(text)
    bump(res, "split_with_start_runs")
    res["sig"] = sig_of([text, spec, start])
    res["sample"] = {"split": spec, "start": start, "residues": nres}
    res["nontrivial"] = True
    w = {"top": text, "split": [spec], "start": start}
    run, ctx = CC.run_gen_coords(toppath=Path(workdir) / "ss.top", outpath=Path(workdir) / "ss.gro", name="x",
                                 box=np.array([7.0, 7.0, 7.0]), split=[spec], start=start)
    if run["status"] != "ok":
        violation(res, "split-with-start-rejected:%s" % run["exc_type"], "gen_coords -split %s -start %s stopped with %s" %
                  (spec, start, run["error"]), w)
        return res
    topo = ctx["topology"]
    mol = topo.molecules[0]
    want = [n for n in mol.nodes if mol.nodes[n]["resname"] == target][0]
    got = [nd for mi, nd, _ in ctx["starts"] if mi == 0]
    if not got or got[0] != want:
        violation(res, "start-not-resolved-on-split-residues", "molecule 0 was started from residue node %s (%s), -start %s "
                  "selects node %s" % (got[:1], mol.nodes[got[0]]["resname"] if got else None, start, want), w)
    return res
