"""C15 - one centred template and size per distinct residue; user values win."""
import itertools
import os
from pathlib import Path

import numpy as np

from ..core import new_result, bump, violation, sig_of, note
from .. import attach

PID = "C15"
LEVEL = "exploration"
RULE = ("seeded residue definitions (chains, rings, branched, impropers with non-zero reference, every virtual-site "
        "kind: 2, 3, 3fd, 3fad, 3out, 4fdn, n with equal masses) in topologies where equal residue names may have "
        "different content in different molecule types; Topology + GenerateTemplates are driven directly (and the same "
        "monitors ride along in the gen_coords workloads). Checks: residues share a template key iff their atom-name "
        "labelled bond graphs are isomorphic (networkx is_isomorphic, independent of the hash); every template has "
        "exactly the residue's atom names and zero centre of geometry; virtual sites sit at the GROMACS construction "
        "(own formulas) of their defining atoms' template positions; construct_vs is equivariant under random rigid "
        "motions; every optimize_geometry call that reports success is re-checked against its bond / constraint / "
        "angle / improper targets with own geometry code; build-file [ template ] coordinates minus centroid and "
        "[ volumes ] values are used verbatim; sizes are positive and do not depend on which other residues are in the "
        "system. non-trivial = topology with >= 2 distinct residue classes or a virtual site; distinct = hash(topology, "
        "build file)"
        " Later: the generator's own failure report (per template) against the final template, frustrated impropers, virtual sites built from virtual sites, sites stacked on one atom, zero-extent site types, two templates under one residue name, [ volumes ] before [ template ].")
ASSUMPTIONS = ["virtual_sitesn is generated with function 1/2 and equal masses (the centre-of-geometry construction is a "
               "documented approximation otherwise)", "user templates carry the same [ bonds ] as the residue",
               "impropers use reference angles within +-40 degrees (no periodic wrap in the tolerance test)"]
CASE_TIMEOUT = 240
WALL = {"quick": 1200, "thorough": 10800}
MAX_TIMEOUTS = {"quick": 1, "thorough": 20}
REQUIRED = {"residue_classes": 600, "isomorphism_pairs_checked": 500, "same_name_different_content": 60,
            "virtual_sites_checked": 300, "vs_kinds": 7, "stacked_site_residues": 20, "optimiser_successes_rechecked": 300, "impropers_rechecked": 60,
            "user_templates": 40, "user_volumes": 60, "equivariance_checks": 500, "size_independence_checks": 25,
            "optimiser_failures_seen": 30, "same_names_other_connectivity": 10, "two_templates_under_one_name": 8, "names_with_several_unoptimised_templates": 10,
            "templates_reported_optimised_rechecked": 500, "templates_reported_unoptimised": 50, "build_files_with_volumes_first": 40,
            "templates_spread_over_two_build_files": 5}
CAP = {"opt": [], "blocks": [], "final": [], "failed": set(), "nfailed": {}}
_done = False


def setup():
    global _done
    if _done:
        return
    _done = True
    import polyply.src.generate_templates as gt

    def mk(orig):
        def optimize_geometry(block, coords, *a, **k):
            ok, out = orig(block, coords, *a, **k)
            inter_types = a[0] if a else k.get("inter_types", [])
            CAP["opt"].append((ok, block, {n: np.array(v, dtype=float) for n, v in out.items()}, list(inter_types)))
            return ok, out
        return optimize_geometry
    attach.wrap_function(gt, "optimize_geometry", mk)

    # what the template generator reports: a residue for which no 'Failed to optimize' warning was issued is reported
    # as optimised, whatever the individual optimiser calls said
    def mk_extract(orig):
        def extract_block(*a, **k):
            block = orig(*a, **k)
            CAP["blocks"].append(block)
            return block
        return extract_block
    attach.wrap_function(gt, "extract_block", mk_extract)

    import logging

    class _H(logging.Handler):
        def emit(self, record):
            try:
                msg = record.getMessage()
            except Exception:
                msg = str(record.msg)
            if "Failed to optimize structure for block" in str(record.msg) or "Failed to optimize structure" in msg:
                args = record.args if isinstance(record.args, (tuple, list)) else ()
                name = str(args[0]) if args else msg.rsplit(" ", 1)[-1].rstrip(".")
                CAP["failed"].add(name)
                CAP["nfailed"][name] = CAP["nfailed"].get(name, 0) + 1

    def mk_gen(orig):
        def gen_templates(self, meta_molecule, template_graphs):
            before = set(self.templates)
            n0 = len(CAP["blocks"])
            h = _H(level=logging.WARNING)
            lg = logging.getLogger("polyply")
            lg.addHandler(h)
            try:
                out = orig(self, meta_molecule, template_graphs)
            finally:
                lg.removeHandler(h)
            new = [g for g in template_graphs if g not in before and g in self.templates]
            blocks = CAP["blocks"][n0:]
            if len(new) == len(blocks):
                for g, b in zip(new, blocks):
                    CAP["final"].append((b, {n: np.array(v, dtype=float) for n, v in self.templates[g].items()}))
            return out
        return gen_templates
    attach.wrap_method(gt.GenerateTemplates, "gen_templates", mk_gen)


def plan(tier, seed):
    n = 1000 if tier == "quick" else 8000
    return [["tmpl", i] for i in range(n)] + [["vsdirect", i] for i in range(n // 6)]


# ----------------------------------------------------------------------------- own geometry
def ang(a, b, c):
    v1, v2 = a - b, c - b
    return float(np.degrees(np.arccos(np.clip(np.dot(v1, v2) / (np.linalg.norm(v1) * np.linalg.norm(v2)), -1, 1))))


def dihedral(i, j, k, l):
    """GROMACS convention: angle between planes (i,j,k) and (j,k,l); sign of r_ij . (r_kj x r_kl)"""
    r_ij, r_kj, r_kl = i - j, k - j, k - l
    m = np.cross(r_ij, r_kj)
    n = np.cross(r_kj, r_kl)
    phi = float(np.degrees(np.arccos(np.clip(np.dot(m, n) / (np.linalg.norm(m) * np.linalg.norm(n)), -1, 1))))
    return phi if np.dot(r_ij, n) >= 0 else -phi


def vs_position(sec, params, pos):
    """GROMACS manual constructions; pos = defining atoms in order"""
    f = params[0]
    p = [float(x) for x in params[1:]]
    if sec == "virtual_sitesn":
        return np.mean(pos, axis=0)
    ri = pos[0]
    if sec == "virtual_sites2":
        return (1 - p[0]) * ri + p[0] * pos[1]
    rij = pos[1] - ri
    rik = pos[2] - ri
    if sec == "virtual_sites3":
        if f == "1":
            return ri + p[0] * rij + p[1] * rik
        rjk = pos[2] - pos[1]
        if f == "2":
            v = rij + p[0] * rjk
            return ri + p[1] * v / np.linalg.norm(v)
        if f == "3":
            theta, d = np.radians(p[0]), p[1]
            perp = rjk - rij * np.dot(rij, rjk) / np.dot(rij, rij)
            return ri + d * np.cos(theta) * rij / np.linalg.norm(rij) + d * np.sin(theta) * perp / np.linalg.norm(perp)
        if f == "4":
            return ri + p[0] * rij + p[1] * rik + p[2] * np.cross(rij, rik)
    if sec == "virtual_sites4" and f == "2":
        ril = pos[3] - ri
        rja = p[0] * rik - rij
        rjb = p[1] * ril - rij
        rm = np.cross(rja, rjb)
        return ri + p[2] * rm / np.linalg.norm(rm)
    raise KeyError((sec, f))


VS_KINDS = [("virtual_sites2", "1", 2, lambda r: ["%.3f" % r.uniform(0.1, 0.9)]),
            ("virtual_sites3", "1", 3, lambda r: ["%.3f" % r.uniform(0.1, 0.5), "%.3f" % r.uniform(0.1, 0.4)]),
            ("virtual_sites3", "2", 3, lambda r: ["%.3f" % r.uniform(0.2, 0.8), "%.3f" % r.uniform(0.05, 0.2)]),
            ("virtual_sites3", "3", 3, lambda r: ["%d" % r.randint(20, 160), "%.3f" % r.uniform(0.05, 0.2)]),
            ("virtual_sites3", "4", 3, lambda r: ["%.3f" % r.uniform(-0.5, 0.5), "%.3f" % r.uniform(-0.5, 0.5), "%.3f" % r.uniform(-5, 5)]),
            ("virtual_sites4", "2", 4, lambda r: ["%.3f" % r.uniform(0.5, 1.5), "%.3f" % r.uniform(0.5, 1.5), "%.3f" % r.uniform(0.05, 0.2)]),
            ("virtual_sitesn", "1", 3, lambda r: []),
            ("virtual_sitesn", "1", 1, lambda r: [])]       # a site on top of a single atom (the CA site of Martini 3 proteins)


def gen_residue(rng, resname, variant=0, kind=None):
    kind = kind or rng.choice(["chain", "ring", "branch", "improper", "vs", "vs", "single", "frustrated", "frustrated_imp", "vs_nested"])
    atoms, bonds, angles, imps, vs = [], [], [], [], []
    cons = []
    # atom names are specific to the residue definition: residues with the same atom names and bonds are by
    # definition the same residue for polyply, whatever their other interactions are
    pre = resname[-1] if variant == 0 else resname[-1].lower()
    if kind == "single":
        atoms = [pre + "0"]
    elif kind in ("chain", "branch"):
        n = rng.randint(2, 5)
        atoms = [pre + str(i) for i in range(n)]
        for i in range(1, n):
            j = i - 1 if kind == "chain" else rng.randrange(i)
            bonds.append((j, i, round(rng.uniform(0.25, 0.4), 3)))
        if n >= 3 and kind == "chain":
            angles.append((0, 1, 2, rng.choice([100, 120, 150])))
    elif kind == "ring":
        n = rng.randint(3, 5)
        atoms = [pre + str(i) for i in range(n)]
        for i in range(n):
            bonds.append((i, (i + 1) % n, 0.3))
    elif kind == "frustrated":
        # distance targets that cannot all be met (0.25 + 0.25 < 0.70): the optimiser must not report success
        atoms = [pre + str(i) for i in range(3)]
        if rng.random() < 0.5:
            cons = [(0, 1, 0.25), (1, 2, 0.25), (0, 2, round(rng.uniform(0.62, 0.75), 3))]
        else:
            bonds = [(0, 1, 0.25), (1, 2, 0.25), (0, 2, round(rng.uniform(0.62, 0.75), 3))]
    elif kind == "vs_nested":
        # virtual sites built from virtual sites: GROMACS constructs them type by type (2, 3, 4, then n), whatever the
        # order of the sections in the file
        atoms = [pre + str(i) for i in range(3)] + ["VS", "VT", "VU"]
        bonds = [(0, 1, round(rng.uniform(0.28, 0.4), 3)), (1, 2, round(rng.uniform(0.28, 0.4), 3)),
                 (0, 2, round(rng.uniform(0.3, 0.45), 3))]
        inner = [("virtual_sites2", "1", 3, [0, 1], ["%.3f" % rng.uniform(0.2, 0.8)]),
                 ("virtual_sites2", "1", 4, [1, 2], ["%.3f" % rng.uniform(0.2, 0.8)])]
        if rng.random() < 0.5:
            outer = ("virtual_sites3", "1", 5, [3, 4, 0], ["%.3f" % rng.uniform(0.1, 0.4), "%.3f" % rng.uniform(0.1, 0.4)])
        else:
            outer = ("virtual_sitesn", "1", 5, [3, 4, 2], [])
        vs = ([outer] + inner) if rng.random() < 0.5 else (inner + [outer])
    elif kind == "frustrated_imp":
        # a flat centre (three angles of 120 degrees) that is asked to be pyramidal by its improper: distances and
        # angles can be met, the complete set cannot - the generator must not report such a template as optimised
        atoms = [pre + str(i) for i in range(4)]
        bonds = [(0, 1, 0.3), (0, 2, 0.3), (0, 3, 0.3)]
        angles = [(1, 0, 2, 120), (1, 0, 3, 120), (2, 0, 3, 120)]
        imps.append((0, 1, 2, 3, rng.choice([-35, 35])))
    elif kind == "improper":
        atoms = [pre + str(i) for i in range(4)]
        bonds = [(0, 1, 0.3), (0, 2, 0.3), (0, 3, 0.3), (1, 2, 0.45), (2, 3, 0.45)]
        imps.append((0, 1, 2, 3, rng.choice([-35, -20, 20, 35])))
    else:
        sec, f, ndef, pf = rng.choice(VS_KINDS)
        nreal = ndef + rng.randint(0, 1)
        atoms = [pre + str(i) for i in range(nreal)] + ["VS"]
        lens = [round(rng.uniform(0.28, 0.4), 3) for _ in range(nreal)]
        for i in range(1, nreal):
            bonds.append((i - 1, i, lens[i]))
        if nreal >= 3:
            bonds.append((0, 2, round(rng.uniform(0.3, 0.45), 3)))
        if nreal >= 4:
            bonds.append((1, 3, round(rng.uniform(0.3, 0.45), 3)))
            bonds.append((0, 3, round(rng.uniform(0.3, 0.45), 3)))
        defs = list(range(ndef))
        vs.append((sec, f, nreal, defs, pf(rng)))
        if ndef == 1:
            kind = "vs_stacked"
    return {"name": resname, "kind": kind, "atoms": atoms, "bonds": bonds, "angles": angles, "imps": imps, "vs": vs, "cons": cons,
            "site_type_z": bool(vs) and rng.random() < 0.4}


def render(sysd):
    L = ["[ defaults ]", "1 2 no 1.0 1.0", "[ atomtypes ]", "A 36.0 0.0 A 0.47 2.0", "B 36.0 0.0 A 0.40 2.0",
         "Z 0.0 0.0 A 0.0 0.0"]          # a type without extent, for virtual sites
    for mt in sysd["moltypes"]:
        L += ["[ moleculetype ]", "%s 1" % mt["name"], "[ atoms ]"]
        k = 1
        first = []
        bonds, angles, imps, vss, cons = [], [], [], {}, []
        for ri, r in enumerate(mt["res"]):
            first.append(k)
            for j, a in enumerate(r["atoms"]):
                L.append("%d %s %d %s %s %d 0.0 %s" % (k + j, "Z" if (a in ("VS", "VT", "VU") and r.get("site_type_z")) else
                                                      "A" if j % 2 == 0 else "B", ri + 1, r["name"], a, k + j,
                                                      "0.0" if a in ("VS", "VT", "VU") else "36.0"))
            for i, j, b0 in r["bonds"]:
                bonds.append("%d %d 1 %.3f 5000" % (k + i, k + j, b0))
            for i, j, b0 in r.get("cons", []):
                cons.append("%d %d 1 %.3f" % (k + i, k + j, b0))
            for i, j, l, th in r["angles"]:
                angles.append("%d %d %d 1 %d 100" % (k + i, k + j, k + l, th))
            for i, j, l, m, ref in r["imps"]:
                imps.append("%d %d %d %d 2 %d 100" % (k + i, k + j, k + l, k + m, ref))
            for sec, f, site, defs, params in r["vs"]:
                if sec == "virtual_sitesn":
                    row = "%d %s %s" % (k + site, f, " ".join(str(k + d) for d in defs))
                else:
                    row = "%d %s %s %s" % (k + site, " ".join(str(k + d) for d in defs), f, " ".join(params))
                vss.setdefault(sec, []).append(row)
            k += len(r["atoms"])
        for a in range(len(mt["res"]) - 1):
            bonds.append("%d %d 1 0.40 1000" % (first[a], first[a + 1]))
        if bonds:
            L += ["[ bonds ]"] + bonds
        if cons:
            L += ["[ constraints ]"] + cons
        if angles:
            L += ["[ angles ]"] + angles
        if imps:
            L += ["[ dihedrals ]"] + imps
        for sec, rows in vss.items():
            L += ["[ %s ]" % sec] + rows
    L += ["[ system ]", "x", "[ molecules ]"] + ["%s %d" % (mt["name"], c) for mt, c in zip(sysd["moltypes"], sysd["counts"])]
    return "\n".join(L) + "\n"


def label_graph(r):
    import networkx as nx
    g = nx.Graph()
    for i, a in enumerate(r["atoms"]):
        g.add_node(i, atomname=a)
    for i, j, _ in r["bonds"] + r.get("cons", []):
        g.add_edge(i, j)
    return g


def build_topology(text, workdir, name, build=None):
    from polyply.src.topology import Topology
    from polyply.src.generate_templates import GenerateTemplates
    from polyply.src.load_library import load_build_files
    p = os.path.join(workdir, name)
    with open(p, "w") as fh:
        fh.write(text)
    top = Topology.from_gmx_topfile(name="x", path=p)
    top.preprocess()
    if build:
        load_build_files(top, None, [Path(b) for b in build] if isinstance(build, (list, tuple)) else [Path(build)])
    del CAP["opt"][:]
    del CAP["blocks"][:]
    del CAP["final"][:]
    CAP["failed"].clear()
    CAP["nfailed"].clear()
    GenerateTemplates(topology=top, max_opt=10, skip_filter=False).run_system(top)
    return top


def run_case(cid, rng, workdir):
    res = new_result()
    if cid[0] == "vsdirect":
        return run_vs_direct(cid, rng, res)
    import networkx as nx
    # residue pool: names RA..RD; a name may have two different contents (variants) used in different molecule types
    pool = {}
    for nm in ["RA", "RB", "RC", "RD"][:rng.randint(1, 4)]:
        pool[(nm, 0)] = gen_residue(rng, nm, 0)
        if pool[(nm, 0)]["kind"].startswith("frustrated") and rng.random() < 0.6:
            # two residues under one name that both cannot be optimised: each failure has to be reported
            pool[(nm, 1)] = gen_residue(rng, nm, 1, kind=rng.choice(["frustrated", "frustrated_imp"]))
        elif rng.random() < 0.35:
            pool[(nm, 1)] = gen_residue(rng, nm, 1)
        elif rng.random() < 0.2 and pool[(nm, 0)]["kind"] in ("chain", "branch") and len(pool[(nm, 0)]["atoms"]) >= 3:
            # same residue name, same atom names, other connectivity (e.g. EC1-O1-EC2 versus O1-EC1-EC2)
            base = pool[(nm, 0)]
            perm = list(range(len(base["atoms"])))
            rng.shuffle(perm)
            v = dict(base, bonds=[(perm[i], perm[j], b0) for i, j, b0 in base["bonds"]], angles=[], kind="rewired")
            import networkx as _nx
            if not _nx.is_isomorphic(label_graph(base), label_graph(v), node_match=lambda a, b: a["atomname"] == b["atomname"]):
                pool[(nm, 1)] = v
                bump(res, "same_names_other_connectivity")
    # an alias: the same content under another residue name (must share one template)
    if rng.random() < 0.3:
        src = rng.choice(sorted(pool))
        pool[("RZ", 0)] = dict(pool[src], name="RZ")
        bump(res, "alias_residues")
    moltypes = []
    nmt = rng.randint(1, 3)
    for mi in range(nmt):
        # one variant per name inside a molecule type
        pick = {}
        for (nm, v) in pool:
            pick.setdefault(nm, []).append(v)
        variant = {nm: rng.choice(vs) for nm, vs in pick.items()}
        res_list = []
        for nm in [rng.choice(sorted(variant)) for _ in range(rng.randint(1, 5))]:
            v = variant[nm]
            if (nm, 1) in pool and pool[(nm, 1)]["kind"] == "rewired":
                v = rng.choice([0, 1])          # both connectivities may occur in one molecule
            res_list.append(pool[(nm, v)])
        moltypes.append({"name": "M%d" % mi, "res": res_list})
    sysd = {"moltypes": moltypes, "counts": [rng.randint(1, 2) for _ in moltypes]}
    text = render(sysd)
    # build file with user templates / volumes
    build = None
    build2 = None
    user_t, user_v = {}, {}
    user_t2, user_v2 = {}, {}
    user_v_all = {}
    used = {}
    for mt in moltypes:
        for r in mt["res"]:
            used.setdefault(r["name"], []).append(r)
    alias_src = pool[("RZ", 0)]["atoms"] if ("RZ", 0) in pool else None
    single_variant = [nm for nm, lst in used.items() if len({id(x) for x in lst}) == 1 and lst[0]["atoms"] != alias_src]
    if rng.random() < 0.45:
        bl = []
        for nm in single_variant:
            r = used[nm][0]
            c = rng.random()
            if c < 0.4 and not r["vs"]:
                coords = {a: np.array([round(rng.uniform(-0.4, 0.4), 3) for _ in range(3)]) for a in r["atoms"]}
                bl += ["[ template ]", "resname %s" % nm, "[ atoms ]"]
                for j, a in enumerate(r["atoms"]):
                    bl.append("%s %s %.3f %.3f %.3f" % (a, "A" if j % 2 == 0 else "B", coords[a][0], coords[a][1], coords[a][2]))
                bl.append("[ bonds ]")
                for i, j, _ in r["bonds"]:
                    bl.append("%s %s" % (r["atoms"][i], r["atoms"][j]))
                if not r["bonds"]:
                    # a single-atom template has no bonds section: the parser stores templates when [ bonds ] ends
                    bl = bl[:-(3 + len(r["atoms"]))]
                    continue
                user_t[nm] = coords
            if rng.random() < 0.6:
                user_v[nm] = round(rng.uniform(0.3, 0.8), 3)
        # two different residues under one name, a template for each of them (and possibly one size for the name):
        # both templates are used as given and every residue still gets a positive size
        multi = [nm for nm, lst in used.items() if len({id(x) for x in lst}) == 2 and
                 all(x["bonds"] and not x["vs"] and x["atoms"] != alias_src for x in lst)]
        for nm in multi:
            seen_ids = set()
            for r in used[nm]:
                if id(r) in seen_ids:
                    continue
                seen_ids.add(id(r))
                coords = {a: np.array([round(rng.uniform(-0.4, 0.4), 3) for _ in range(3)]) for a in r["atoms"]}
                bl += ["[ template ]", "resname %s" % nm, "[ atoms ]"]
                for j, a in enumerate(r["atoms"]):
                    bl.append("%s %s %.3f %.3f %.3f" % (a, "A" if j % 2 == 0 else "B", coords[a][0], coords[a][1], coords[a][2]))
                bl.append("[ bonds ]")
                for i, j, _ in r["bonds"] + r.get("cons", []):
                    bl.append("%s %s" % (r["atoms"][i], r["atoms"][j]))
                user_t2[id(r)] = coords
            if rng.random() < 0.6:
                user_v2[nm] = round(rng.uniform(0.3, 0.8), 3)
            bump(res, "two_templates_under_one_name")
        if user_v2:
            user_v_all = dict(user_v)
            user_v_all.update(user_v2)
        else:
            user_v_all = user_v
        if user_v_all:
            vol = ["[ volumes ]"] + ["%s %.3f" % kv for kv in sorted(user_v_all.items())]
            if rng.random() < 0.5:
                bl = vol + bl          # sizes listed before the templates they belong to
                bump(res, "build_files_with_volumes_first")
            else:
                bl += vol
        if bl:
            build = os.path.join(workdir, "t.bld")
            with open(build, "w") as fh:
                fh.write("\n".join(bl) + "\n")
            # the templates spread over two build files (-b a.bld b.bld): every file's templates are used
            starts = [i for i, l in enumerate(bl) if l in ("[ template ]", "[ volumes ]")] + [len(bl)]
            chunks = [bl[a:b] for a, b in zip(starts, starts[1:])]
            tchunks = [c for c in chunks if c[0] == "[ template ]"]
            if len(tchunks) >= 2 and rng.random() < 0.4:
                k = rng.randint(1, len(tchunks) - 1)
                vols = [c for c in chunks if c[0] == "[ volumes ]"]
                first = [l for c in vols + tchunks[:k] for l in c]
                if rng.random() < 0.5:
                    # the first file also holds a template for a residue of the second file, with other coordinates that
                    # are not centred: the later file counts, recentred like every template
                    dup = []
                    for l in rng.choice(tchunks[k:]):
                        tk = l.split()
                        if len(tk) == 5 and not l.startswith("["):
                            try:
                                l = "%s %s %.3f %.3f %.3f" % (tk[0], tk[1], float(tk[2]) * 0.5 + 0.7, float(tk[3]) * 0.5 - 0.4, float(tk[4]) * 0.5 + 0.2)
                            except ValueError:
                                pass
                        dup.append(l)
                    first += dup
                    bump(res, "templates_given_in_both_build_files")
                second = [l for c in chunks if not any(c is t for t in tchunks[:k]) for l in c]
                build2 = [os.path.join(workdir, "t1.bld"), os.path.join(workdir, "t2.bld")]
                for pth, lines_ in zip(build2, (first, second)):
                    with open(pth, "w") as fh:
                        fh.write("\n".join(lines_) + "\n")
                bump(res, "templates_spread_over_two_build_files")
    res["sig"] = sig_of([text, open(build).read() if build else None])
    res["sample"] = {"residues": {"%s/%d" % k: (v["kind"], v["atoms"], [x[:2] for x in v["vs"]]) for k, v in pool.items()},
                     "moltypes": [(m["name"], [r["name"] for r in m["res"]]) for m in moltypes],
                     "user_templates": sorted(user_t), "user_volumes": user_v}
    w = {"top": text, "build_file": open(build).read() if build else None}
    if build2:
        w["build_files"] = [open(b).read() for b in build2]
    try:
        top = build_topology(text, workdir, "t.top", build2 or build)
    except Exception as err:      # noqa
        if type(err).__name__ == "CaseTimeout":
            raise
        res["status"] = "rejected"
        note(res, "rejections", "%s: %s" % (type(err).__name__, str(err)[:100]))
        if not isinstance(err, (IOError, OSError)):
            import traceback
            violation(res, "template-generation-crash:%s" % type(err).__name__, "%s: %s\n%s" %
                      (type(err).__name__, str(err)[:200], traceback.format_exc()[-500:]), w)
        return res
    opt_log = list(CAP["opt"])
    # ---- grouping ------------------------------------------------------------------------------------------
    inst = []      # (spec residue, template key)
    for mi, mm in enumerate(top.molecules):
        mt = [m for m in moltypes if m["name"] == mm.mol_name][0]
        for nd in mm.nodes:
            r = mt["res"][mm.nodes[nd]["resid"] - 1]
            inst.append((r, mm.nodes[nd]["template"], mm))
    classes = {}
    for r, key, mm in inst:
        classes.setdefault(id(r), (r, set()))[1].add(key)
    for rid, (r, keys) in classes.items():
        if len(keys) != 1:
            violation(res, "copies-of-one-residue-have-different-templates", "residue %s (%s) has template keys %s" %
                      (r["name"], r["atoms"], keys), w)
    reps = [(r, sorted(keys)[0]) for r, keys in classes.values()]
    bump(res, "residue_classes", len(reps))
    bump(res, "stacked_site_residues", sum(1 for r_, _k in reps if r_["kind"] == "vs_stacked"))
    names = {}
    for r, key in reps:
        names.setdefault(r["name"], set()).add(id(r))
    bump(res, "same_name_different_content", sum(1 for v in names.values() if len(v) > 1))
    for (r1, k1), (r2, k2) in itertools.combinations(reps, 2):
        bump(res, "isomorphism_pairs_checked")
        iso = nx.is_isomorphic(label_graph(r1), label_graph(r2), node_match=lambda a, b: a["atomname"] == b["atomname"])
        if iso and k1 != k2:
            violation(res, "isomorphic-residues-different-template", "%s %s and %s %s are isomorphic but have different "
                      "template keys" % (r1["name"], r1["atoms"], r2["name"], r2["atoms"]), w)
        if not iso and k1 == k2:
            why = "different-atom-names" if sorted(r1["atoms"]) != sorted(r2["atoms"]) else "different-bonds"
            violation(res, "distinct-residues-share-template:" + why, "%s %s and %s %s are not isomorphic but share template "
                      "key %s" % (r1["name"], r1["atoms"], r2["name"], r2["atoms"], k1), w)
    res["nontrivial"] = len(reps) >= 2 or any(r["vs"] for r, _ in reps)
    # ---- templates -----------------------------------------------------------------------------------------
    templates = top.molecules[0].templates
    for r, key in reps:
        t = templates.get(key)
        if t is None:
            violation(res, "template-missing", "no template for residue %s %s" % (r["name"], r["atoms"]), w)
            continue
        if sorted(t) != sorted(r["atoms"]):
            violation(res, "template-atom-names-wrong", "template of %s has %s, residue has %s" % (r["name"], sorted(t), sorted(r["atoms"])), w)
            continue
        P = np.array([t[a] for a in r["atoms"]], dtype=float)
        if not np.all(np.isfinite(P)):
            violation(res, "template-non-finite", "template of %s has non-finite coordinates" % r["name"], w)
            continue
        if np.max(np.abs(P.mean(axis=0))) > 1e-9:
            violation(res, "template-not-centred%s" % (":user-volume" if r["name"] in user_v else ""),
                      "template of %s %s has centre of geometry %s" % (r["name"], r["atoms"], P.mean(axis=0).tolist()), w)
        size = top.volumes.get(key)
        if size is None or not (size > 0):
            violation(res, "size-not-positive", "size of %s is %r" % (r["name"], size), w)
        if r["name"] in user_v:
            bump(res, "user_volumes")
            if size is None or abs(size - user_v[r["name"]]) > 1e-12:
                violation(res, "user-volume-not-used", "build file gives %s the size %r, topology uses %r" % (r["name"], user_v[r["name"]], size), w)
        if r["name"] in user_t or id(r) in user_t2:
            bump(res, "user_templates")
            ut = user_t[r["name"]] if r["name"] in user_t else user_t2[id(r)]
            U = np.array([ut[a] for a in r["atoms"]])
            U = U - U.mean(axis=0)
            if np.max(np.abs(U - P)) > 1e-9:
                violation(res, "user-template-not-used-verbatim", "template of %s differs from the build-file coordinates minus "
                          "their centroid by %.3g nm" % (r["name"], np.max(np.abs(U - P))), w)
            continue
        for sec, f, site, defs, params in r["vs"]:
            bump(res, "virtual_sites_checked")
            note(res, "vs_kinds", sec + ":" + f)
            want = vs_position(sec, [f] + params, [P[d] for d in defs])
            got = P[site]
            if np.max(np.abs(want - got)) > 1e-8:
                violation(res, "virtual-site-misplaced:%s:%s" % (sec, f), "residue %s: site at %s, GROMACS construction from its "
                          "defining atoms gives %s (parameters %s)" % (r["name"], got.tolist(), want.tolist(), params), w)
    # ---- optimiser verdicts --------------------------------------------------------------------------------
    for ok, block, coords, inter_types in opt_log:
        if not ok:
            bump(res, "optimiser_failures_seen")
            continue
        bump(res, "optimiser_successes_rechecked")
        for sec in inter_types:
            for it in block.interactions.get(sec, []):
                X = [coords[a] for a in it.atoms]
                if sec in ("bonds", "constraints"):
                    dev = abs(np.linalg.norm(X[0] - X[1]) - float(it.parameters[1]))
                    if block_is_frustrated(block):
                        bump(res, "frustrated_successes_rechecked")
                    if dev > 0.05 + 1e-9:
                        violation(res, "reported-optimised-but-%s-off" % sec[:-1], "%s %s: length off by %.3f nm" % (sec, list(it.atoms), dev), w)
                elif sec == "angles":
                    dev = abs(ang(*X) - float(it.parameters[1]))
                    if dev > 5 + 1e-6:
                        violation(res, "reported-optimised-but-angle-off", "angle %s is %.1f, target %s" % (list(it.atoms), ang(*X), it.parameters[1]), w)
                elif sec == "dihedrals" and it.parameters[0] == "2":
                    bump(res, "impropers_rechecked")
                    phi = dihedral(*X)
                    if abs(phi - float(it.parameters[1])) > 5 + 1e-6:
                        violation(res, "reported-optimised-but-improper-off", "improper %s is %.2f deg (GROMACS sign convention), "
                                  "target %s" % (list(it.atoms), phi, it.parameters[1]), w)
    # ---- what the generator reports -----------------------------------------------------------------------------
    # several residue definitions under one name: a failure is reported per template, so a name needs at least as many
    # reports as it has templates that miss their targets
    off_by_name = {}
    for block, coords in list(CAP["final"]):
        rn = block.nodes[list(block.nodes)[0]]["resname"]
        if rn in user_t or rn in user_v2 or any(r_["name"] == rn for r_, _k in reps if id(r_) in user_t2):
            continue
        bad_ = False
        for sec in ("bonds", "constraints", "angles", "dihedrals"):
            for it in block.interactions.get(sec, []):
                if any(a not in coords for a in it.atoms):
                    continue
                X = [coords[a] for a in it.atoms]
                try:
                    if sec in ("bonds", "constraints"):
                        bad_ |= abs(np.linalg.norm(X[0] - X[1]) - float(it.parameters[1])) > 0.05 + 1e-9
                    elif sec == "angles":
                        bad_ |= abs(ang(*X) - float(it.parameters[1])) > 5 + 1e-6
                    elif it.parameters[0] == "2":
                        bad_ |= abs(dihedral(*X) - float(it.parameters[1])) > 5 + 1e-6
                except (ValueError, IndexError):
                    pass
        if bad_:
            off_by_name[rn] = off_by_name.get(rn, 0) + 1
    for rn, noff in off_by_name.items():
        if noff > 1:
            bump(res, "names_with_several_unoptimised_templates")
        if CAP["nfailed"].get(rn, 0) < noff:
            violation(res, "unoptimised-template-not-reported", "%d templates of residues named %s miss their targets, %d failure "
                      "reports were issued for that name" % (noff, rn, CAP["nfailed"].get(rn, 0)), w)
    for block, coords in list(CAP["final"]):
        rn = block.nodes[list(block.nodes)[0]]["resname"]
        if rn in CAP["failed"] or rn in user_t or rn in user_v2 or any(r_["name"] == rn for r_, _k in reps if id(r_) in user_t2):
            bump(res, "templates_reported_unoptimised")
            continue
        bump(res, "templates_reported_optimised_rechecked")
        for sec in ("bonds", "constraints", "angles", "dihedrals"):
            for it in block.interactions.get(sec, []):
                if any(a not in coords for a in it.atoms):
                    continue
                X = [coords[a] for a in it.atoms]
                try:
                    if sec in ("bonds", "constraints"):
                        dev, lim, what = abs(np.linalg.norm(X[0] - X[1]) - float(it.parameters[1])), 0.05 + 1e-9, "nm"
                    elif sec == "angles":
                        dev, lim, what = abs(ang(*X) - float(it.parameters[1])), 5 + 1e-6, "deg"
                    elif it.parameters[0] == "2":
                        dev, lim, what = abs(dihedral(*X) - float(it.parameters[1])), 5 + 1e-6, "deg"
                    else:
                        continue
                except (ValueError, IndexError):
                    continue
                if dev > lim:
                    violation(res, "template-reported-optimised-but-%s-off" % sec.rstrip("s"), "residue %s: no failure was reported "
                              "for its template, but %s %s is off by %.3f %s" % (rn, sec, list(it.atoms), dev, what), w)
    # ---- sizes belong to the residue class, not to the residue name --------------------------------------------
    for nm, ids in names.items():
        if len(ids) > 1 and nm not in user_v_all:
            # (a site stacked on its only atom has no extent: its size is the radius, whatever the residue)
            variants = [(r, key) for r, key in reps if r["name"] == nm and len(r["atoms"]) >= 2 and
                        not (r["kind"] == "vs_stacked" and len(r["atoms"]) == 2)]
            for (r1, k1), (r2, k2) in itertools.combinations(variants, 2):
                if k1 == k2:
                    continue
                bump(res, "size_independence_checks")
                # two differently built multi-atom residues: sizes come from different geometries and cannot be
                # bit-identical unless one was copied from the other through the shared residue name
                if k1 not in top.volumes or k2 not in top.volumes:
                    continue          # reported above as size-not-positive
                if top.volumes[k1] == top.volumes[k2]:
                    violation(res, "size-shared-through-residue-name", "the two different residues named %s (%s and %s) have "
                              "exactly the same size %r" % (nm, r1["atoms"], r2["atoms"], top.volumes[k1]), w)
    return res


def block_is_frustrated(block):
    return len(block.nodes) == 3 and (len(block.interactions.get("constraints", [])) == 3 or len(block.interactions.get("bonds", [])) == 3)


def run_vs_direct(cid, rng, res):
    """construct_vs driven directly: GROMACS formulas and equivariance under rigid motions"""
    from polyply.src.virtual_site_builder import construct_vs
    from vermouth.molecule import Interaction
    pts = []
    for _ in range(30):
        sec, f, ndef, pf = rng.choice(VS_KINDS)
        params = pf(rng)
        pos = [np.array([rng.uniform(-1, 1) for _ in range(3)]) for _ in range(ndef)]
        inter = Interaction(atoms=["S"] + ["a%d" % i for i in range(ndef)], parameters=[f] + params, meta={})
        pd = {"a%d" % i: pos[i] for i in range(ndef)}
        got = np.array(construct_vs(sec, inter, pd), dtype=float)
        want = vs_position(sec, [f] + params, pos)
        note(res, "vs_kinds", sec + ":" + f)
        bump(res, "virtual_sites_checked")
        w = {"kind": sec, "function": f, "parameters": params, "positions": [p.tolist() for p in pos]}
        if np.max(np.abs(got - want)) > 1e-9:
            violation(res, "virtual-site-misplaced:%s:%s" % (sec, f), "construct_vs gives %s, GROMACS construction %s" %
                      (got.tolist(), want.tolist()), w)
        # random proper rotation + translation
        q = np.array([rng.gauss(0, 1) for _ in range(4)])
        q /= np.linalg.norm(q)
        a, b, c, d = q
        R = np.array([[a * a + b * b - c * c - d * d, 2 * (b * c - a * d), 2 * (b * d + a * c)],
                      [2 * (b * c + a * d), a * a - b * b + c * c - d * d, 2 * (c * d - a * b)],
                      [2 * (b * d - a * c), 2 * (c * d + a * b), a * a - b * b - c * c + d * d]])
        t = np.array([rng.uniform(-3, 3) for _ in range(3)])
        pd2 = {k: R @ v + t for k, v in pd.items()}
        got2 = np.array(construct_vs(sec, inter, pd2), dtype=float)
        bump(res, "equivariance_checks")
        if np.max(np.abs(got2 - (R @ got + t))) > 1e-9:
            violation(res, "virtual-site-not-equivariant:%s:%s" % (sec, f), "construction does not commute with a rigid motion", w)
        pts.append((sec, f, params))
    res["nontrivial"] = True
    res["sig"] = sig_of(pts)
    res["sample"] = {"stratum": "construct_vs direct", "first": pts[:3]}
    return res
