"""C17 - failed placements are rolled back completely; accepted ones never move."""
import itertools
import os

import numpy as np

from ..core import new_result, bump, violation, sig_of, note
from .. import attach
from . import C16

PID = "C17"
LEVEL = "fault_enumeration"
RULE = ("fault enumeration at the placement boundary: RandomWalk.update_positions is interposed with a scripted outcome "
        "(bit = fail returns False without placing, exactly what exhausting the trial vectors does; bit = succeed runs "
        "the real method in a dilute box); every schedule of length L is enumerated for every residue-graph shape "
        "x rewind depth x number of failing start placements; a shadow of the engine kept at add_positions / "
        "remove_positions checks the prefix-closed invariant at every intercepted call (grown-from residue positioned, "
        "target not, every earlier build step positioned, no later one unless supplied), that abandoned attempts "
        "leave only supplied residues, that earlier molecules never change (bitwise) and that the final state has "
        "exactly one finite position per residue equal to the last point added. non-trivial = walk with >= 1 scripted "
        "failure; distinct = (shape, nrewind, start failures, schedule)"
        ' Later: a placement outside update_positions in a molecule that has positioned residues is a violation (molecules with coordinates are continued, not started on the grid).')
ASSUMPTIONS = ["real placements succeed in the dilute 14 nm box (a real failure is just one more recorded fail event)",
               "BuildSystem maxiter is set to 2 so that the give-up branch is reachable by a bounded schedule"]
CASE_TIMEOUT = 600
WALL = {"quick": 900, "thorough": 10800}
REQUIRED = {"walks": 2000, "intercepted_calls": 20000, "rewinds": 500, "attempts_abandoned": 500, "giveups": 50,
            "start_failures": 200, "supplied_walks": 300, "frozen_checks": 5000}

SHAPES = {
    "lin7": ([(i, i + 1) for i in range(6)], 7, []),
    "br7": ([(0, 1), (1, 2), (1, 3), (3, 4), (3, 5), (5, 6)], 7, []),
    "lin8sup": ([(i, i + 1) for i in range(7)], 8, [0, 1, 2]),
    "star7": ([(0, i) for i in range(1, 7)], 7, []),
    "comb9": ([(0, 1), (1, 2), (2, 3), (3, 4), (1, 5), (2, 6), (3, 7), (4, 8)], 9, []),
    "lin9mid": ([(i, i + 1) for i in range(8)], 9, [3, 4]),
    # two separate supplied residues: growth starts at the first one, the second is a step that is skipped in the
    # middle of the growth order (rewind windows span it)
    "lin9two": ([(i, i + 1) for i in range(8)], 9, [2, 5]),
    "ring6": ([(i, (i + 1) % 6) for i in range(6)], 6, []),
    # growth starts from a residue in the middle (-start): the placed residues are not a prefix of the node order
    "lin7start3": ([(i, i + 1) for i in range(6)], 7, []),
}
START = {"lin7start3": 3}
QUICK = ["lin7", "br7", "lin8sup", "lin9two", "lin7start3"]
TOP = """[ defaults ]
1 2 no 1.0 1.0
[ atomtypes ]
A 36.0 0.0 A 0.47 3.5
[ moleculetype ]
M 1
[ atoms ]
{atoms}
[ bonds ]
{bonds}
[ system ]
x
[ molecules ]
M 3
"""


def exhaustive(tier):
    L = 8 if tier == "quick" else 11
    shapes = QUICK if tier == "quick" else sorted(SHAPES)
    return {"schedule_length": L, "schedules": 2 ** L, "shapes": shapes,
            "nrewind": [1, 2, 3, 5] if tier == "quick" else [1, 2, 3, 4, 5, 6], "start_failures": [0, 1, 2]}


EXHAUSTIVE = exhaustive


def plan(tier, seed):
    ex = exhaustive(tier)
    L = ex["schedule_length"]
    chunk = 32 if tier == "quick" else 128
    cids = []
    for shape in ex["shapes"]:
        for nrew in ex["nrewind"]:
            for sf in ex["start_failures"]:
                if sf and nrew not in (1, 5):
                    continue
                for blk in range(2 ** L // chunk):
                    cids.append([shape, nrew, sf, L, blk * chunk, chunk])
    if tier == "thorough":
        for i in range(400):
            cids.append(["random", 0, 0, 24, i, 40])
    return cids


STATE = {}


def setup():
    C16.setup()
    import polyply.src.random_walk as rw
    from polyply.src.nonbond_engine import NonBondEngine
    from polyply.src.build_system import BuildSystem

    def mk_add(orig):
        def add_positions(self, point, mol_idx, node_key, *a, **k):
            out = orig(self, point, mol_idx, node_key, *a, **k)
            st = STATE.get("cur")
            if st is not None and st["engine"] in (None, self):
                if not st["in_update"] and st["supplied"].get(mol_idx):
                    # a placement that does not come from update_positions is a start on the grid: a molecule that has
                    # positioned residues is continued from them ("only ever grown from a positioned neighbour")
                    st["viol"].append(("grid-start-in-a-molecule-with-positioned-residues",
                                       "residue %s of molecule %d is put on a start point although residues %s of that molecule "
                                       "are positioned" % (node_key, mol_idx, sorted(st["supplied"][mol_idx]))))
                st["shadow"][(mol_idx, node_key)] = np.array(point, dtype=float)
                st["adds"] += 1
            return out
        return add_positions

    def mk_rem(orig):
        def remove_positions(self, mol_idx, node_keys):
            node_keys = list(node_keys)
            out = orig(self, mol_idx, node_keys)
            st = STATE.get("cur")
            if st is not None:
                # the shadow follows what the engine actually holds after the call, not what was asked for
                for k in node_keys:
                    if (mol_idx, k) in st["shadow"] and not np.all(np.isfinite(self.get_point(mol_idx, k))):
                        st["shadow"].pop((mol_idx, k), None)
            return out
        return remove_positions

    def mk_upd(orig):
        def update_positions(self, vector_bundle, current_node, prev_node):
            st = STATE.get("cur")
            if st is None:
                return orig(self, vector_bundle, current_node, prev_node)
            st["calls"] += 1
            check_prefix(st, self, current_node, prev_node)
            ok = next(st["it"], True)
            st["trace"].append((self.mol_idx, prev_node, current_node, ok))
            if not ok:
                st["fails"] += 1
                return False
            return orig(self, vector_bundle, current_node, prev_node)
        return update_positions

    def mk_rew(orig):
        def _rewind(self, current_step):
            st = STATE.get("cur")
            if st is not None:
                st["rewinds"] += 1
            return orig(self, current_step)
        return _rewind

    def mk_overlap(orig):
        def _is_overlap(self, point, node, *a, **k):          # defaults are the program's, not the wrapper's
            st = STATE.get("cur")
            if st is not None and st["start_fail_left"] > 0 and not st["in_update"]:
                # only the start placement calls _is_overlap outside update_positions
                import inspect
                st["start_fail_left"] -= 1
                st["start_fails"] += 1
                return True
            return orig(self, point, node, *a, **k)
        return _is_overlap

    def mk_run(orig):
        def run_molecule(self, meta_molecule):
            st = STATE.get("cur")
            if st is None:
                return orig(self, meta_molecule)
            mi = self.mol_idx
            sup = st["supplied"].get(mi, set())
            have = {n for (m, n) in st["shadow"] if m == mi}
            if have != sup:
                st["viol"].append(("leftover-after-abandoned-attempt",
                                   "attempt %d of molecule %d starts with residues %s still positioned (supplied: %s)" %
                                   (st["attempts"].get(mi, 0) + 1, mi, sorted(have - sup), sorted(sup))))
            if mi not in st["attempts"]:
                # every molecule sees the whole schedule (restarted at its first attempt)
                st["it"] = iter(st["sched"])
            st["attempts"][mi] = st["attempts"].get(mi, 0) + 1
            if mi not in st["frozen"]:
                # everything built so far is frozen from now on
                for (m, n), p in st["shadow"].items():
                    if m < mi:
                        st["frozen"].setdefault(mi, {})[(m, n)] = p.copy()
            check_frozen(st, self.nonbond_matrix, mi)
            out = orig(self, meta_molecule)
            if not self.success:
                st["abandoned"] += 1
            check_frozen(st, self.nonbond_matrix, mi)
            return out
        return run_molecule

    attach.wrap_method(NonBondEngine, "add_positions", mk_add)
    attach.wrap_method(NonBondEngine, "remove_positions", mk_rem)
    attach.wrap_method(rw.RandomWalk, "update_positions", mk_upd)
    attach.wrap_method(rw.RandomWalk, "_rewind", mk_rew)
    attach.wrap_method(rw.RandomWalk, "run_molecule", mk_run)
    # start placement failures: interpose _is_overlap only while not inside update_positions
    orig_upd = rw.RandomWalk.update_positions

    def upd_flag(self, *a, **k):
        st = STATE.get("cur")
        if st is not None:
            st["in_update"] = True
        try:
            return orig_upd(self, *a, **k)
        finally:
            if st is not None:
                st["in_update"] = False
    rw.RandomWalk.update_positions = upd_flag
    attach.wrap_method(rw.RandomWalk, "_is_overlap", mk_overlap)


def check_frozen(st, engine, mi):
    for (m, n), p in st["frozen"].get(mi, {}).items():
        st["frozen_checks"] += 1
        q = engine.get_point(m, n)
        if not np.array_equal(q, p):
            st["viol"].append(("earlier-molecule-moved", "residue %s of molecule %d changed from %s to %s while molecule %d "
                               "was built" % (n, m, p.tolist(), np.asarray(q).tolist(), mi)))


def check_prefix(st, walk, cur, prev):
    mi = walk.mol_idx
    mol = walk.molecule
    path = list(mol.search_tree.edges)
    S = {n for (m, n) in st["shadow"] if m == mi}
    sup = st["supplied"].get(mi, set())
    try:
        k = path.index((prev, cur))
    except ValueError:
        st["viol"].append(("step-not-in-growth-order", "update_positions(%s, %s) is not an edge of the search tree" % (cur, prev)))
        return
    if prev not in S:
        st["viol"].append(("grown-from-unpositioned", "residue %s is grown from %s which has no position" % (cur, prev)))
    if cur in S:
        st["viol"].append(("target-already-positioned", "residue %s already has a position when it is placed" % (cur,)))
    for (p, c) in path[k + 1:]:
        if c in S and c not in sup:
            st["viol"].append(("leftover-of-discarded-part", "at step %d (placing %s) the later residue %s is still positioned" % (k, cur, c)))
            break
    for (p, c) in path[:k]:
        if c not in S:
            st["viol"].append(("hole-before-current-step", "at step %d (placing %s) the earlier residue %s has no position" % (k, cur, c)))
            break
    check_frozen(st, walk.nonbond_matrix, mi)


_TOPO = {}


def topology_for(shape, workdir):
    """parse + templates once per worker and shape; positions are reset between walks"""
    if shape in _TOPO:
        return _TOPO[shape]
    from polyply.src.topology import Topology
    from polyply.src.generate_templates import GenerateTemplates
    edges, n, sup = SHAPES[shape]
    atoms = ["%d A %d R B %d 0.0" % (k, k, k) for k in range(1, n + 1)]
    bonds = ["%d %d 1 0.35 1000" % (a + 1, b + 1) for a, b in edges]
    path = os.path.join(workdir, shape + ".top")
    with open(path, "w") as fh:
        fh.write(TOP.format(atoms="\n".join(atoms), bonds="\n".join(bonds)))
    topo = Topology.from_gmx_topfile(name="x", path=path)
    topo.preprocess()
    GenerateTemplates(topology=topo, max_opt=10, skip_filter=False).run_system(topo)
    _TOPO[shape] = topo
    return topo


def one_walk(res, shape, nrew, start_fail, sched, workdir):
    from polyply.src.build_system import BuildSystem
    topo = topology_for(shape, workdir)
    edges, n, sup = SHAPES[shape]
    # reset
    supplied = {}
    for mi, mol in enumerate(topo.molecules):
        mol.root = None
        for nd in mol.nodes:
            mol.nodes[nd].pop("position", None)
            mol.nodes[nd]["build"] = True
        if sup and mi == 1:
            for j, nd in enumerate(sup):
                mol.nodes[nd]["position"] = np.array([7.0 + 0.47 * j, 7.0, 7.0])
                mol.nodes[nd]["build"] = False
            supplied[mi] = set(sup)
    st = {"shadow": {}, "it": iter(sched), "sched": tuple(sched), "calls": 0, "fails": 0, "rewinds": 0, "viol": [], "trace": [],
          "supplied": supplied, "attempts": {}, "frozen": {}, "abandoned": 0, "frozen_checks": 0, "adds": 0,
          "start_fail_left": start_fail, "start_fails": 0, "in_update": False, "engine": None}
    # supplied positions are in the engine from the start
    for mi, s in supplied.items():
        for nd in s:
            st["shadow"][(mi, nd)] = np.array(topo.molecules[mi].nodes[nd]["position"], dtype=float)
    STATE["cur"] = st
    err = None
    try:
        b = BuildSystem(topo, density=None, start_dict={i: START.get(shape) for i in range(len(topo.molecules))},
                        box=np.array([14.0, 14.0, 14.0]), maxiter=2, nrewind=nrew, step_fudge=1.0, max_force=5e4)
        b.run_system(topo.molecules)
    except C16.InvariantBroken as e:
        st["viol"].append(("engine-views-disagree", str(e)[:200]))
        err = e
    except Exception as e:      # noqa
        if type(e).__name__ == "CaseTimeout":
            STATE["cur"] = None
            raise
        st["viol"].append(("build-raises:%s" % type(e).__name__, "%s: %s" % (type(e).__name__, str(e)[:200])))
        err = e
    finally:
        STATE["cur"] = None
    if err is None:
        for mi, mol in enumerate(topo.molecules):
            for nd in mol.nodes:
                p = mol.nodes[nd].get("position")
                if p is None or not np.all(np.isfinite(p)):
                    st["viol"].append(("final-residue-without-position", "molecule %d residue %s ends with position %s" % (mi, nd, p)))
                elif (mi, nd) not in st["shadow"] or not np.array_equal(p, st["shadow"][(mi, nd)]):
                    st["viol"].append(("final-position-not-last-added", "molecule %d residue %s: node position %s, last point "
                                       "added %s" % (mi, nd, np.asarray(p).tolist(), st["shadow"].get((mi, nd)))))
        eng = b.nonbond_matrix
        fin = int(np.sum(np.isfinite(eng.positions[:, 0])))
        if fin != sum(len(m.nodes) for m in topo.molecules) or sum(len(x) for x in eng.defined_idxs) != fin:
            st["viol"].append(("final-engine-count", "engine holds %d finite positions / %d indexed for %d residues" %
                               (fin, sum(len(x) for x in eng.defined_idxs), sum(len(m.nodes) for m in topo.molecules))))
    bump(res, "walks")
    bump(res, "intercepted_calls", st["calls"])
    bump(res, "scripted_failures", st["fails"])
    bump(res, "rewinds", st["rewinds"])
    bump(res, "attempts_abandoned", st["abandoned"])
    bump(res, "giveups", sum(1 for v in st["attempts"].values() if v > 3))
    bump(res, "start_failures", st["start_fails"])
    bump(res, "frozen_checks", st["frozen_checks"])
    if supplied:
        bump(res, "supplied_walks")
    seen = set()
    for key, msg in st["viol"]:
        if key in seen:
            continue
        seen.add(key)
        violation(res, key, msg, {"shape": shape, "nrewind": nrew, "start_failures": start_fail,
                                  "schedule": "".join("S" if x else "F" for x in sched), "trace": st["trace"][-30:]})
    return st


def run_case(cid, rng, workdir):
    res = new_result()
    shape, nrew, sf, L, first, count = cid
    sigs = []
    if shape == "random":
        for k in range(count):
            shp = rng.choice(sorted(SHAPES))
            nr = rng.randint(1, 6)
            sched = tuple(rng.random() < 0.6 for _ in range(L))
            one_walk(res, shp, nr, rng.choice([0, 0, 1, 3]), sched, workdir)
            sigs.append((shp, nr, sched))
    else:
        for idx in range(first, first + count):
            sched = tuple(bool((idx >> b) & 1) for b in range(L))
            one_walk(res, shape, nrew, sf, sched, workdir)
            sigs.append(idx)
    res["nontrivial"] = True
    res["sig"] = sig_of([cid, sigs[:3]])
    bump(res, "distinct_walks", len(sigs))
    res["sample"] = {"shape": shape, "nrewind": nrew, "start_failures": sf,
                     "schedules": ["".join("S" if (i >> b) & 1 else "F" for b in range(L)) for i in range(first, first + min(count, 3))]
                     if shape != "random" else "random schedules of length %d" % L}
    return res


def coverage_extra(agg, tier):
    return {"distinct_walks": agg["counters"].get("distinct_walks", 0)}
