"""C10 - every residue-graph edge is realised by a bond or reported as missing."""
import os
import re
from pathlib import Path

from ..core import new_result, bump, violation, sig_of, note
from ..gen import paramcase
from ..gen import ff as FF
from .. import attach
from . import _params_common as PC

PID = "C10"
LEVEL = "exploration"
RULE = ("seeded force fields with links randomly withheld / not matching x residue graphs (chains, trees, rings) "
        "through the real gen_params with a log handler on the polyply logger; recount: a residue-graph edge is "
        "'realised' iff the reference model (and the captured molecule) has >= 1 atom-level edge between the two "
        "residues; the set of 'Missing a link' warnings must equal the set of unrealised edges. Second half: every "
        "produced .itp whose written bond graph is disconnected is given to gen_coords, which must raise before any "
        "placement and leave no output. non-trivial = residue graph with >= 1 edge; distinct = hash(files, graph)"
        ' Later strata: atom-id links with two bonds, the shipped libraries, gen_params -dsdna with a backbone link that knows a subset of the names, the gen_coords gate with start coordinates for the leading molecules.')
ASSUMPTIONS = ["residue-graph edges are taken from the generated input graph, not from the program's state",
               "for the gen_coords half 'connected' is decided on the written bonds + constraints"]
CASE_TIMEOUT = 120
WALL = {"quick": 900, "thorough": 7200}
REQUIRED = {"residue_edges_checked": 2000, "edges_realised": 300, "edges_missing": 300, "warnings_seen": 300,
            "gen_coords_refusals": 20, "gen_coords_accepts": 3, "atom_removal_cases": 3,
            "asked_before_and_after_links": 100, "library_cases": 100, "gen_coords_gate_with_start_coordinates": 100, "dsdna_runs": 100,
            "dsdna_missing_in_second_strand": 30}
MSG = re.compile(r"Missing a link between residue (\d+) (\S+) and residue (\d+) (\S+)\.")
ADDS = {"n": 0}


def plan(tier, seed):
    n = 3000 if tier == "quick" else 40000
    return [["miss", i] for i in range(n)] + [["library", i] for i in range(n // 8)] + [["dsdna", i] for i in range(n // 15)]


def setup():
    PC.setup()
    from polyply.src.nonbond_engine import NonBondEngine

    def make(orig):
        def add_positions(self, *a, **k):
            ADDS["n"] += 1
            return orig(self, *a, **k)
        return add_positions
    attach.wrap_method(NonBondEngine, "add_positions", make)


def top_for(itp_name, molname, count=1, others=None):
    """others: None | 'before' | 'after' | 'both' - small connected molecules around the tested one"""
    lines = ["[ defaults ]", "1 2 no 1.0 1.0", "[ atomtypes ]"]
    for t in FF.ATYPES + ["Qd", "Qa", "P9"]:
        lines.append("%s 36.0 0.0 A 0.47 2.0" % t)
    lines += ['#include "%s"' % itp_name]
    if others:
        lines += ["[ moleculetype ]", "SOL 1", "[ atoms ]", "1 P1 1 SOL W 1 0.0", "2 P1 1 SOL X 2 0.0",
                  "[ bonds ]", "1 2 1 0.3 1000"]
    mols = ["%s %d" % (molname, count)]
    if others in ("before", "both"):
        mols.insert(0, "SOL 2")
    if others in ("after", "both"):
        mols.append("SOL 1")
    lines += ["[ system ]", "x", "[ molecules ]"] + mols
    return "\n".join(lines) + "\n"


def run_dsdna(cid, rng, workdir, res):
    """gen_params -dsdna on a DNA force field whose backbone link only knows some of the residue names: every
    backbone step of either strand is bonded or reported, the complementary strand included"""
    from ..monitors import pipeline
    from ..oracle import itp_min
    from .C19 import comp_name, ONE
    names = ["D" + b + s_ for b in "ACGT" for s_ in ("", "5", "3")]
    known = set(rng.sample(names, rng.randint(5, 12)))
    ff = []
    for nm in names:
        ff += ["[ moleculetype ]", "%s 1" % nm, "[ atoms ]", "1 P1 1 %s BB 1 0.0 72.0" % nm]
    ff += ["[ link ]", 'resname "%s"' % "|".join(sorted(known)), "[ bonds ]", "BB +BB 1 0.35 1000"]
    (Path(workdir) / "dna.ff").write_text("\n".join(ff) + "\n")
    n = rng.randint(2, 14)
    seq = "".join(rng.choice("ACGT") for _ in range(n))
    p = Path(workdir) / "d.fasta"
    p.write_text(">DNA strand\n" + seq + "\n")
    out = Path(workdir) / "ds.itp"
    run = pipeline.run_gen_params(name="DS", outpath=out, inpath=[Path(workdir) / "dna.ff"], lib=None, seq=None, seq_file=p,
                                  dsdna=True)
    res["sig"] = sig_of([seq, sorted(known)])
    res["sample"] = {"sequence": seq, "link_knows": sorted(known), "stratum": "gen_params -dsdna"}
    res["nontrivial"] = True
    w = {"sequence": seq, "link_knows": sorted(known)}
    if run["status"] != "ok":
        res["status"] = "rejected"
        violation(res, "rejects-valid-input:dsdna:%s" % run.get("exc_type"), run["error"], w)
        return res
    first = [ONE[c] for c in seq]
    first[0] += "5"
    first[-1] += "3"
    allnames = first + [comp_name(first[n - k]) for k in range(1, n + 1)]
    exp_missing = set()
    steps = [(i, i + 1) for i in range(1, n)] + [(i, i + 1) for i in range(n + 1, 2 * n)]
    for a, b in steps:
        if not (allnames[a - 1] in known and allnames[b - 1] in known):
            exp_missing.add(frozenset(((a, allnames[a - 1]), (b, allnames[b - 1]))))
    got = set()
    for m in run["missing"]:
        mm = MSG.search(m)
        if mm:
            got.add(frozenset(((int(mm.group(1)), mm.group(2)), (int(mm.group(3)), mm.group(4)))))
    bump(res, "dsdna_runs")
    bump(res, "residue_edges_checked", len(steps))
    bump(res, "edges_missing", len(exp_missing))
    bump(res, "edges_realised", len(steps) - len(exp_missing))
    bump(res, "warnings_seen", len(got))
    if exp_missing & {e for e in exp_missing if min(x[0] for x in e) > n}:
        bump(res, "dsdna_missing_in_second_strand")
    for pair in exp_missing - got:
        violation(res, "neither-bond-nor-warning:dsdna", "residues %s are neighbours in a strand, the backbone link does not know "
                  "them, and no missing-link warning names them" % sorted(pair), w)
    for pair in got - exp_missing:
        violation(res, "both-bond-and-warning:dsdna", "warning for %s although the backbone link applies (or they are not "
                  "neighbours)" % sorted(pair), w)
    obs = itp_min.read_itp(str(out))
    nb = sum(obs["inter"].get("bonds", {}).values())
    if nb != len(steps) - len(exp_missing):
        violation(res, "bond-count:dsdna", "%d backbone bonds written, %d steps are covered by the link" %
                  (nb, len(steps) - len(exp_missing)), w)
    return res


def run_case(cid, rng, workdir):
    res = new_result()
    if cid[0] == "dsdna":
        return run_dsdna(cid, rng, workdir, res)
    case = paramcase.build(rng, profile="sensible", nmin=2, nmax=8, max_links=rng.choice([0, 1, 2, 3, 5]),
                           layouts=["ff", "ff", "ff+itp", "itp+ff", "itp_dangling", "multi"], p_explicit=0.2,
                           link_opts={"p_remove": 0.1, "p_nonedge": 0.15, "p_pattern": 0.15, "p_edge": 0.2,
                                      "linktypes": True, "nres": [2, 2, 2, 3]})
    if cid[0] == "library":
        case = PC.build_library_case(rng)          # shipped libraries: unrelated residues next to each other have no link
        ev = PC.evaluate_library(case, workdir)
        bump(res, "library_cases")
    else:
        ev = PC.evaluate(case, workdir)
    res["sig"] = sig_of([case["files"], case["graph"], case.get("lib")])
    res["sample"] = case["descr"]
    if ev["ref"] is None:
        res["status"] = "rejected"
        return res
    if ev["run"]["status"] != "ok":
        res["status"] = "rejected"
        violation(res, "rejects-valid-input:%s" % ev["run"].get("exc_type"), "gen_params raised %s" % ev["run"]["error"],
                  PC.witness(case))
        return res
    ref, obs = ev["ref"], ev["obs"]
    from ..oracle import refparams
    by_key = ref["by_key"]
    exp_missing = set()
    for pair in refparams.missing_links(ref):
        a, b = tuple(pair)
        exp_missing.add(frozenset(((by_key[a]["resid"], by_key[a]["resname"]), (by_key[b]["resid"], by_key[b]["resname"]))))
    got = []
    for m in ev["run"]["missing"]:
        mm = MSG.search(m)
        if not mm:
            violation(res, "warning-unparsable", "missing-link warning does not name both residues: %r" % m, PC.witness(case))
            continue
        got.append(frozenset(((int(mm.group(1)), mm.group(2)), (int(mm.group(3)), mm.group(4)))))
    nedges = len(case["graph"]["edges"])
    res["nontrivial"] = nedges > 0
    bump(res, "residue_edges_checked", nedges)
    bump(res, "edges_missing", len(exp_missing))
    bump(res, "edges_realised", nedges - len(exp_missing))
    bump(res, "warnings_seen", len(got))
    if ref["removed"]:
        bump(res, "atom_removal_cases")
    note(res, "layouts", case["layout"])
    w = None
    if len(got) != len(set(got)):
        w = w or PC.witness(case)
        violation(res, "warning-duplicated", "a missing link is reported more than once: %s" % sorted(map(sorted, got)), w)
    gset = set(got)
    all_pairs = set()
    for a, b, _ in case["graph"]["edges"]:
        all_pairs.add(frozenset(((by_key[a]["resid"], by_key[a]["resname"]), (by_key[b]["resid"], by_key[b]["resname"]))))
    for pair in gset - all_pairs:
        w = w or PC.witness(case)
        violation(res, "warning-for-non-edge", "warning names %s which is not an edge of the residue graph" % sorted(pair), w)
    for pair in (gset & all_pairs) - exp_missing:
        w = w or PC.witness(case)
        violation(res, "both-bond-and-warning", "residues %s are joined by an atom-level edge and also reported missing" %
                  sorted(pair), w)
    for pair in exp_missing - gset:
        w = w or PC.witness(case)
        violation(res, "neither-bond-nor-warning", "residues %s are connected in the residue graph, have no atom-level edge "
                  "and no missing-link warning" % sorted(pair), w)
    # cross-check the reference's notion of 'joined' against the captured molecule (independent of the oracle)
    stage = ev["run"]["stages"].get("mods") or ev["run"]["stages"].get("links")
    if stage and "edges" in stage and not ref["removed"]:
        rid = {a["idx"]: (a["resid"], a["resname"]) for a in stage["atoms"]}
        joined = set()
        for e in stage["edges"]:
            x, y = tuple(e)
            if rid[x] != rid[y]:
                joined.add(frozenset((rid[x], rid[y])))
        for pair in all_pairs:
            if (pair in joined) == (pair in gset):
                w = w or PC.witness(case)
                violation(res, "both-bond-and-warning" if pair in joined else "neither-bond-nor-warning",
                          "[captured molecule] residues %s: atom-level edge present=%s, warning present=%s" %
                          (sorted(pair), pair in joined, pair in gset), w)
    # ---- history clause: the search is a pure function of the current molecule (asked before and after links) ------
    if cid[0] == "library":
        return res            # the history clause and the gen_coords gate need the files of a generated case
    if rng.random() < 0.15 and not ref["removed"]:
        from polyply.src.load_library import load_ff_library
        from polyply.src.meta_molecule import MetaMolecule
        from polyply.src.map_to_molecule import MapToMolecule
        from polyply.src.apply_links import ApplyLinks
        from polyply.src.graph_utils import find_missing_edges
        try:
            ffield = load_ff_library("POLY", None, [Path(workdir) / p for p in case["inpath"]])
            mm = MetaMolecule.from_sequence_file(ffield, Path(workdir) / "case.json", "POLY")
            mm = MapToMolecule(ffield).run_molecule(mm)
            before_links = {frozenset(((d["idxA"], d["resA"]), (d["idxB"], d["resB"]))) for d in find_missing_edges(mm, mm.molecule)}
            mm = ApplyLinks().run_molecule(mm)
            after_links = {frozenset(((d["idxA"], d["resA"]), (d["idxB"], d["resB"]))) for d in find_missing_edges(mm, mm.molecule)}
            bump(res, "asked_before_and_after_links")
            if after_links != exp_missing:
                violation(res, "missing-links-depend-on-earlier-queries", "asked once before and once after link application the "
                          "second answer is %s, the unbonded residue pairs are %s" %
                          (sorted(map(sorted, after_links))[:4], sorted(map(sorted, exp_missing))[:4]), w or PC.witness(case))
            if not (exp_missing <= before_links):
                violation(res, "missing-link-not-reported-before-links", "pairs unbonded after link application were not reported "
                          "before it: %s" % sorted(map(sorted, exp_missing - before_links))[:4], w or PC.witness(case))
        except Exception as err:      # noqa
            if type(err).__name__ == "CaseTimeout":
                raise
            violation(res, "direct-pipeline-raises:%s" % type(err).__name__, str(err)[:200], w or PC.witness(case))
    # ---- gen_coords gate ------------------------------------------------------------------------------------
    adj = {a["idx"]: set() for a in obs["atoms"]}
    for sec in ("bonds", "constraints"):
        for (atoms, _p, cond) in obs["inter"].get(sec, {}):
            x, y = atoms
            adj[x].add(y)
            adj[y].add(x)
    seen = {1}
    stack = [1]
    while stack:
        u = stack.pop()
        for v in adj[u]:
            if v not in seen:
                seen.add(v)
                stack.append(v)
    connected = len(seen) == len(adj)
    cond_bonds = any(c for sec in ("bonds", "constraints") for (_a, _p, c) in obs["inter"].get(sec, {}))
    if (not connected and not cond_bonds) or (connected and not cond_bonds and rng.random() < 0.15):
        others = rng.choice([None, "before", "after", "both"])
        with open(os.path.join(workdir, "sys.top"), "w") as fh:
            fh.write(top_for("out.itp", "POLY", others=others))
        gate_kw = {}
        if others in ("before", "both") and rng.random() < 0.5:
            # start coordinates for the molecules listed before the tested one (-c): it still has to be built
            rows = []
            for m_ in range(2):
                for a_, nm_ in enumerate(("W", "X")):
                    rows.append("%5d%-5s%5s%5d%8.3f%8.3f%8.3f" % (1, "SOL", nm_, len(rows) + 1, 1.0 + 2.0 * m_, 1.0 + 0.3 * a_, 1.0))
            with open(os.path.join(workdir, "start.gro"), "w") as fh:
                fh.write("start\n%d\n%s\n   9.00000   9.00000   9.00000\n" % (len(rows), "\n".join(rows)))
            gate_kw["coordpath"] = Path(workdir) / "start.gro"
            bump(res, "gen_coords_gate_with_start_coordinates")
        from polyply import gen_coords
        from vermouth.file_writer import DeferredFileWriter
        import numpy as np
        ADDS["n"] = 0
        outp = Path(workdir) / "sys.gro"
        err = None
        try:
            gen_coords(toppath=Path(workdir) / "sys.top", outpath=outp, name="x", box=np.array([9.0, 9.0, 9.0]), **gate_kw)
        except Exception as e:          # noqa
            err = e
            try:
                DeferredFileWriter().close()
            except Exception:
                pass
        if not connected:
            # is the disconnection visible at the residue level (some residue pair not joined) or only inside a residue?
            rid = {a["idx"]: a["resid"] for a in obs["atoms"]}
            radj = {}
            for x in adj:
                for y in adj[x]:
                    if rid[x] != rid[y]:
                        radj.setdefault(rid[x], set()).add(rid[y])
            allres = sorted(set(rid.values()))
            rs, st = {allres[0]}, [allres[0]]
            while st:
                u = st.pop()
                for v in radj.get(u, ()):
                    if v not in rs:
                        rs.add(v)
                        st.append(v)
            where = "residues-disconnected" if len(rs) < len(allres) else "only-inside-a-residue"
            refused = err is not None and isinstance(err, IOError) and "disconnected" in str(err)
            if refused:
                bump(res, "gen_coords_refusals")
            else:
                violation(res, "gen-coords-builds-disconnected:" + where,
                          "written molecule has %d of %d atoms reachable from atom 1 (%s) but gen_coords did not refuse (%r)" %
                          (len(seen), len(adj), where, err), w or PC.witness(case))
            if not refused:
                pass
            elif ADDS["n"]:
                violation(res, "gen-coords-places-before-refusing", "%d placements happened before the refusal" % ADDS["n"],
                          w or PC.witness(case))
            if refused and outp.exists():
                violation(res, "gen-coords-output-after-refusal", "output file exists after refusal", w or PC.witness(case))
        else:
            bump(res, "gen_coords_accepts")
            if err is not None:
                violation(res, "gen-coords-rejects-connected:%s" % type(err).__name__,
                          "gen_coords raised %r on a connected molecule produced by gen_params" % (err,),
                          w or PC.witness(case))
    return res
