"""C06 - backmapping places rigid, centred, same-handed copies of the residue template."""
import copy
import os
from pathlib import Path

import numpy as np

from ..core import new_result, bump, violation, sig_of, note
from ..gen import topo as T
from .. import attach
from . import _coords_common as CC
from . import C03

PID = "C06"
LEVEL = "exploration"
RULE = ("seeded systems with 1-5-atom residues (single, chains, branched, planar rings with a virtual site, chiral "
        "centres with four different arms), 0..n bonded neighbours built or supplied (-c / -mc prefixes), back-mapping "
        "factors 0.1-1.0, through the real gen_coords; a wrapper on Backmap.run_molecule snapshots the templates "
        "before the first residue is placed and checks every back-mapped residue: centre of geometry == residue "
        "position (1e-9), centred coordinates == factor * R * template for a proper rotation R (Kabsch fit with "
        "det +1, residual <= 1e-8 nm) with atoms matched by their own atom name; in the adversarial stratum the "
        "optimiser result seen by backmap is replaced by hostile angle triples (0, pi/2 multiples, 2pi-eps, huge, "
        "random). non-trivial = run with >= 1 back-mapped multi-atom residue; distinct = hash(topology, options)"
        ' Later: residues with a virtual site stacked on one atom; two residue definitions under one name.')
ASSUMPTIONS = ["handedness is implied by the proper-rotation fit (a mirror image of a rank-3 template has a large residual)",
               "templates are compared with their value at the start of back-mapping (in-place changes are visible)"]
CASE_TIMEOUT = 240
WALL = {"quick": 1200, "thorough": 10800}
MAX_TIMEOUTS = {"quick": 1, "thorough": 20}
REQUIRED = {"residues_checked": 1500, "multi_atom_residues": 800, "chiral_residues": 100, "rank3_templates": 150,
            "adversarial_angle_triples": 300, "neighbourless_residues": 50, "residues_with_built_neighbours": 300,
            "factors": 3, "user_volume_runs": 20, "single_atom_user_templates": 10}
CAP = {}
_done = False


def setup():
    global _done
    CC.attach_all()
    if _done:
        return
    _done = True
    import polyply.src.backmap as bm

    def mk(orig):
        def run_molecule(self, meta_molecule):
            if not CC.CTX:
                return orig(self, meta_molecule)
            if CC.CTX.get("templates_before") is None:
                CC.CTX["templates_before"] = {k: {a: np.array(v, dtype=float) for a, v in t.items()}
                                              for k, t in meta_molecule.templates.items()}
            pre = {}
            for nd in meta_molecule.nodes:
                pre[nd] = (bool(meta_molecule.nodes[nd].get("backmap")), np.array(meta_molecule.nodes[nd]["position"], dtype=float))
            out = orig(self, meta_molecule)
            check_molecule(self, meta_molecule, pre)
            return out
        return run_molecule
    attach.wrap_method(bm.Backmap, "run_molecule", mk)


def kabsch(P, Q):
    """proper rotation R minimising |R P - Q| ; P, Q: (n,3) centred"""
    H = P.T @ Q
    U, S, Vt = np.linalg.svd(H)
    d = np.sign(np.linalg.det(Vt.T @ U.T))
    D = np.diag([1.0, 1.0, d if d != 0 else 1.0])
    R = Vt.T @ D @ U.T
    return R, S


def check_molecule(bm_self, mm, pre):
    ctx = CC.CTX
    V = ctx.setdefault("c06_viol", [])
    st = ctx["stats"]
    # the factor the *caller asked for* (not whatever the processor ended up with)
    fudge = ctx.get("requested_bfudge", bm_self.fudge_coords)
    tb = ctx["templates_before"]
    for nd in mm.nodes:
        flag, cg = pre[nd]
        if not flag:
            continue
        key = mm.nodes[nd]["template"]
        tmpl = tb.get(key)
        atoms = list(mm.nodes[nd]["graph"].nodes)
        names = [mm.molecule.nodes[a]["atomname"] for a in atoms]
        X = np.array([mm.molecule.nodes[a]["position"] for a in atoms], dtype=float)
        st["residues_checked"] = st.get("residues_checked", 0) + 1
        nb = [n for n in mm.neighbors(nd)]
        if not nb:
            st["neighbourless_residues"] = st.get("neighbourless_residues", 0) + 1
        else:
            st["residues_with_built_neighbours"] = st.get("residues_with_built_neighbours", 0) + 1
        if tmpl is None or sorted(tmpl) != sorted(names):
            V.append(("template-atom-names-differ", "residue %s%d: atoms %s, template has %s" %
                      (mm.nodes[nd]["resname"], mm.nodes[nd]["resid"], sorted(names), None if tmpl is None else sorted(tmpl))))
            continue
        if not np.all(np.isfinite(X)):
            V.append(("backmapped-non-finite", "residue %s%d has non-finite atom positions" % (mm.nodes[nd]["resname"], mm.nodes[nd]["resid"])))
            continue
        c = X.mean(axis=0)
        if np.max(np.abs(c - cg)) > 1e-9:
            V.append(("centre-not-residue-position", "residue %s%d: centre of geometry %s, residue position %s" %
                      (mm.nodes[nd]["resname"], mm.nodes[nd]["resid"], c.tolist(), cg.tolist())))
        if len(atoms) == 1:
            continue
        st["multi_atom_residues"] = st.get("multi_atom_residues", 0) + 1
        P = np.array([tmpl[n] for n in names], dtype=float)
        Q = (X - cg) / fudge
        R, S = kabsch(P, Q)
        resid = float(np.max(np.abs((R @ P.T).T - Q)))
        rank3 = S[-1] > 1e-6 if len(S) == 3 else False
        if rank3:
            st["rank3_templates"] = st.get("rank3_templates", 0) + 1
        if "CX" in names:
            st["chiral_residues"] = st.get("chiral_residues", 0) + 1
        st["max_kabsch_residual"] = max(st.get("max_kabsch_residual", 0.0), resid)
        if resid > 1e-8:
            # diagnose: scaled? mirrored? sheared?
            H = P.T @ Q
            U, S2, Vt = np.linalg.svd(H)
            Rany = Vt.T @ U.T
            r_any = float(np.max(np.abs((Rany @ P.T).T - Q)))
            dP = np.linalg.norm(P[0] - P[1])
            dQ = np.linalg.norm(Q[0] - Q[1])
            if r_any <= 1e-8 and np.linalg.det(Rany) < 0:
                kind = "mirror-image"
            elif abs(dP) > 1e-9 and np.max(np.abs((R @ P.T).T * (dQ / dP) - Q)) <= 1e-8:
                kind = "wrong-scale"
            else:
                kind = "not-rigid"
            V.append(("not-a-rotated-template:" + kind, "residue %s%d: best proper-rotation fit of factor*template leaves %.3g nm "
                      "(factor %s, pair distance template %.4f vs placed/factor %.4f)" %
                      (mm.nodes[nd]["resname"], mm.nodes[nd]["resid"], resid, fudge, dP, dQ)))


ADV = [lambda x, r: np.zeros(3), lambda x, r: np.array([np.pi / 2, np.pi, 3 * np.pi / 2]),
       lambda x, r: np.array([2 * np.pi - 1e-9, 1e-9, np.pi]), lambda x, r: np.array([r.uniform(-50, 50) for _ in range(3)]),
       lambda x, r: np.array([r.uniform(0, 2 * np.pi) for _ in range(3)]), lambda x, r: np.array([1e6, -1e6, 12345.678]),
       lambda x, r: x]


def plan(tier, seed):
    n = 500 if tier == "quick" else 5000
    return [["bm", i] for i in range(n)] + [["adv", i] for i in range(n // 3)]


def run_case(cid, rng, workdir):
    res = new_result()
    sysd = T.gen_system(rng, kinds=["single", "chain", "chain", "branch", "chiral", "chiral", "vsn", "vs2", "vs1"], max_count=4)
    if rng.random() < 0.3:
        # several copies of a neighbour-less multi-atom molecule (solvent like)
        rn = rng.choice(sorted(sysd["residues"]))
        sysd["moltypes"].append({"name": "SOLV", "res": [rn], "edges": [], "links": [], "shape": "lin"})
        sysd["molecules"].append(("SOLV", rng.randint(2, 5)))
    if rng.random() < 0.25 and T.alias_residues(rng, sysd):
        bump(res, "systems_with_two_residues_under_one_name")
    text = T.render_top(sysd)
    with open(os.path.join(workdir, "s.top"), "w") as fh:
        fh.write(text)
    kw, info = C03.make_options(rng, sysd, workdir, res, allow=("plain", "plain", "c_prefix", "mc", "c_res"))
    if kw is None:
        res["status"] = "rejected"
        return res
    kw["bfudge"] = rng.choice([0.1, 0.4, 0.4, 0.7, 1.0, 1.5])          # factors above one enlarge the template
    if rng.random() < 0.35:
        # user supplied residue sizes (build file [ volumes ]): templates are still generated and must be centred
        with open(os.path.join(workdir, "vol.bld"), "w") as fh:
            fh.write("[ volumes ]\n")
            for rn in sorted(sysd["residues"]):
                if rng.random() < 0.7:
                    fh.write("%s %.3f\n" % (rn, rng.uniform(0.4, 0.7)))
        kw["build"] = [Path(workdir) / "vol.bld"]
        bump(res, "user_volume_runs")
    singles = [rn for rn, r in sysd["residues"].items() if len(r["atoms"]) == 1]
    if singles and rng.random() < 0.5:
        # user template for a one-atom residue, written away from the origin (must still be centred)
        rn = rng.choice(singles)
        a = sysd["residues"][rn]["atoms"][0]
        with open(os.path.join(workdir, "tmpl.bld"), "w") as fh:
            fh.write("[ template ]\nresname %s\n[ atoms ]\n%s %s %.3f %.3f %.3f\n[ bonds ]\n[ volumes ]\n%s %.3f\n" %
                     (rn, a["name"], a["atype"], rng.uniform(0.5, 2), rng.uniform(0.5, 2), rng.uniform(0.5, 2), rn, rng.uniform(0.4, 0.6)))
        kw["build"] = kw.get("build", []) + [Path(workdir) / "tmpl.bld"]
        bump(res, "single_atom_user_templates")
    ctx_kw = {"requested_bfudge": kw["bfudge"]}
    if cid[0] == "adv":
        advr = rng
        ctx_kw["adversarial"] = lambda x: rng.choice(ADV)(x, advr)
    run, ctx = CC.run_gen_coords(ctx_kw=ctx_kw, toppath=Path(workdir) / "s.top", outpath=Path(workdir) / "o.gro", name="x", **kw)
    opts = {k: (v.tolist() if hasattr(v, "tolist") else str(v) if isinstance(v, (Path, list)) else v) for k, v in kw.items()}
    res["sample"] = {"system": T.describe(sysd), "options": opts, "mode": info["mode"], "stratum": cid[0]}
    res["sig"] = sig_of([text, opts, cid[0]])
    w = {"top": text, "options": opts, "stratum": cid[0]}
    if run["status"] != "ok":
        res["status"] = "rejected"
        if run["exc_type"] not in ("OSError", "IOError"):
            violation(res, "crash:%s" % run["exc_type"], "gen_coords stopped with %s\n%s" % (run["error"], run.get("tb", "")[-400:]), w)
        return res
    st = ctx["stats"]
    for k in ("residues_checked", "multi_atom_residues", "chiral_residues", "rank3_templates", "neighbourless_residues",
              "residues_with_built_neighbours"):
        bump(res, k, st.get(k, 0))
    bump(res, "max_kabsch_residual", st.get("max_kabsch_residual", 0.0))
    if cid[0] == "adv":
        bump(res, "adversarial_angle_triples", len(ctx["angles"]))
    bump(res, "optimiser_calls_seen", len(ctx["angles"]))
    note(res, "factors", kw["bfudge"])
    res["nontrivial"] = st.get("multi_atom_residues", 0) >= 1
    seen = set()
    for key, msg in ctx.get("c06_viol", []):
        if key not in seen:
            seen.add(key)
            violation(res, key, msg, w)
    return res
