"""C19 - dsDNA completion adds the antiparallel Watson-Crick complement."""
import json
import os
from pathlib import Path

from ..core import new_result, bump, violation, sig_of, note

PID = "C19"
LEVEL = "exploration"
RULE = ("seeded DNA strands: linear with 5'/3' terminal names (n = 2..400, read from .fasta / .ig through the real parsers; "
        "n = 1 hand-built), circular (n >= 3, from .ig terminator 2 and from .json node-link files with shuffled edge "
        "order and labelled closing edge), every base at every terminal position; the real complement_dsDNA is applied "
        "and compared with an own pairing table: 2n residues, original strand untouched, residue n+k is the complement "
        "of residue n+1-k with 5' and 3' exchanged, second strand connected in that order and separate from the first, "
        "edge labels copied, circular -> circular; complementing the added strand again must give the original names; "
        "unknown residue names must be rejected; an end-to-end stratum runs gen_params -dsdna on a synthetic DNA force "
        "field. non-trivial = strand with >= 2 nucleotides; distinct = hash(sequence, circular, format)"
        ' Later: .json strands with spaced / permuted node keys, shifted residue ids and shuffled listing; sequences wrapped over lines; .txt strands; headers naming DNA and PROTEIN.')
ASSUMPTIONS = ["a lone nucleotide read from a file is named with both suffixes by the parsers and is rejected by the "
               "pairing table; the n = 1 law is driven on a hand-built one-residue strand"]
CASE_TIMEOUT = 120
WALL = {"quick": 900, "thorough": 7200}
REQUIRED = {"strands_completed": 1500, "circular": 300, "json_circular": 100, "labelled_edges_copied": 300,
            "involution_checks": 1000, "unknown_rejected": 100, "single_nucleotide": 20, "end_to_end": 20,
            "end_to_end_via_seq_list": 5, "json_keys_not_from_zero": 50, "json_keys_not_consecutive": 50,
            "json_resids_not_from_one": 50, "json_nodes_listed_out_of_order": 50, "json_keys_not_in_residue_order": 50, "sequences_wrapped_over_lines": 200, "headers_naming_dna_and_protein": 100, "txt_strands": 100, "fasta_with_further_records": 30, "end_to_end_unknown_residue": 3,
            "terminal_bases": 8}
COMP = {"DA": "DT", "DT": "DA", "DG": "DC", "DC": "DG"}
SWAP = {"5": "3", "3": "5", "": ""}
ONE = {"A": "DA", "C": "DC", "G": "DG", "T": "DT"}


def plan(tier, seed):
    n = 4000 if tier == "quick" else 50000
    return [["dna", i] for i in range(n)] + [["bad", i] for i in range(n // 12)] + [["e2e", i] for i in range(max(40, n // 100))]


def setup():
    pass


def comp_name(name):
    base, suf = (name[:2], name[2:])
    return COMP[base] + SWAP[suf]


def snapshot(m, off=0):
    """names, residue ids and labelled edges, ids counted from the first id of the strand (off)"""
    nodes = sorted(m.nodes, key=lambda x: m.nodes[x]["resid"])
    return ([m.nodes[x]["resname"] for x in nodes], [m.nodes[x]["resid"] - off for x in nodes],
            {frozenset((m.nodes[a]["resid"] - off, m.nodes[b]["resid"] - off)): dict(m.edges[(a, b)]) for a, b in m.edges})


def make_strand(rng, workdir, res):
    from polyply.src.meta_molecule import MetaMolecule
    n = rng.choice([1, 2, 2, 3]) if rng.random() < 0.12 else rng.randint(2, 60 if rng.random() < 0.9 else 400)
    seq = "".join(rng.choice("ACGT") for _ in range(n))
    src = rng.choice(["fasta", "ig", "ig_circ", "json_circ", "json_lin", "txt"]) if n >= 3 else ("hand" if n == 1 else rng.choice(["fasta", "ig"]))
    circ = src in ("ig_circ", "json_circ")
    if src == "hand":
        import networkx as nx
        g = nx.Graph()
        g.add_node(0, resname=ONE[seq[0]], resid=1)
        m = MetaMolecule(g, mol_name="t")
        bump(res, "single_nucleotide")
    elif src == "txt":
        # residue names, one space between them, any line breaking
        names = [ONE[c] for c in seq]
        names[0] += "5"
        names[-1] += "3"
        lines, i = [], 0
        while i < n:
            k = rng.randint(1, n)
            lines.append(" ".join(names[i:i + k]))
            i += k
        p = Path(workdir) / "d.txt"
        p.write_text("\n".join(lines) + "\n")
        m = MetaMolecule.from_sequence_file(None, p, "t")
        bump(res, "txt_strands")
    elif src in ("fasta", "ig", "ig_circ"):
        # the sequence may be wrapped over several lines
        if rng.random() < 0.5 and n >= 4:
            cuts = sorted(rng.sample(range(1, n), min(n - 1, rng.randint(1, 3))))
            body = "\n".join(seq[a:b] for a, b in zip([0] + cuts, cuts + [n]))
            bump(res, "sequences_wrapped_over_lines")
        else:
            body = seq
        # the header may mention more than the kind of the sequence
        head = rng.choice(["DNA strand", "DNA strand", "DNA test", "DNA bound to a PROTEIN", "1ABC chain B DNA (PROTEIN complex)"])
        if "PROTEIN" in head:
            bump(res, "headers_naming_dna_and_protein")
        if src == "fasta":
            p = Path(workdir) / "d.fasta"
            more = ""
            if rng.random() < 0.25:
                # a duplex file that lists the second chain as well: only the first record is the strand to complete
                more = ">DNA second chain\n" + "".join(rng.choice("ACGT") for _ in range(rng.randint(1, 10))) + "\n"
                bump(res, "fasta_with_further_records")
            p.write_text(">" + head + "\n" + body + "\n" + more)
        else:
            p = Path(workdir) / "d.ig"
            p.write_text("; " + head + "\ntitle\n" + body + ("2" if circ else "1") + "\n")
        m = MetaMolecule.from_sequence_file(None, p, "t")
    else:
        import networkx as nx
        from networkx.readwrite import json_graph
        g = nx.Graph()
        names = [ONE[c] for c in seq]
        if not circ:
            names[0] += "5"
            names[-1] += "3"
        koff = rng.choice([0, 0, 1, 5])          # node ids need not start at 0
        kstep = rng.choice([1, 1, 1, 10, 3])     # ... nor be consecutive
        roff = rng.choice([0, 0, 0, 10, 3])      # residue ids need not start at 1 (a fragment numbered 11..16)
        if koff:
            bump(res, "json_keys_not_from_zero")
        if kstep > 1:
            bump(res, "json_keys_not_consecutive")
        if roff:
            bump(res, "json_resids_not_from_one")
        perm = list(range(n))
        if rng.random() < 0.3:
            rng.shuffle(perm)                    # node ids in no relation to the order of the residue ids
            bump(res, "json_keys_not_in_residue_order")
        key = lambda i: koff + perm[i] * kstep
        listing = list(range(n))
        if rng.random() < 0.5:
            rng.shuffle(listing)                 # the order in which the file lists the residues is no information
            bump(res, "json_nodes_listed_out_of_order")
        for i in listing:
            g.add_node(key(i), resname=names[i], resid=i + 1 + roff)
        edges = [(key(i), key(i + 1)) for i in range(n - 1)]
        if circ:
            edges.append((key(n - 1), key(0)) if rng.random() < 0.5 else (key(0), key(n - 1)))
        rng.shuffle(edges)
        lab = rng.choice([None, "circle", "x"])
        for a, b in edges:
            if rng.random() < 0.5:
                a, b = b, a
            if {a, b} == {key(0), key(n - 1)} and circ and lab:
                g.add_edge(a, b, linktype=lab)
            elif rng.random() < 0.1:
                g.add_edge(a, b, linktype="inner")
            else:
                g.add_edge(a, b)
        p = Path(workdir) / "d.json"
        json.dump(json_graph.node_link_data(g), open(p, "w"))
        m = MetaMolecule.from_sequence_file(None, p, "t")
        if circ:
            bump(res, "json_circular")
    return m, seq, circ, src


def run_case(cid, rng, workdir):
    res = new_result()
    from polyply.src.gen_dna import complement_dsDNA
    if cid[0] == "e2e":
        return run_e2e(cid, rng, workdir, res)
    m, seq, circ, src = make_strand(rng, workdir, res)
    n = len(seq)
    off = min(m.nodes[x]["resid"] for x in m.nodes) - 1
    names0, resids0, edges0 = snapshot(m, off)
    res["sig"] = sig_of([seq, circ, src])
    res["sample"] = {"sequence": seq[:60], "length": n, "circular": circ, "source": src}
    res["nontrivial"] = n >= 2
    w = {"sequence": seq, "circular": circ, "source": src, "names": names0[:10]}
    if cid[0] == "bad":
        # unknown residue name somewhere in the strand
        k = rng.randrange(n)
        node = [x for x in m.nodes if m.nodes[x]["resid"] == k + 1 + off][0]
        m.nodes[node]["resname"] = rng.choice(["DX", "A", "PEO", "DA7", "da"])
        try:
            complement_dsDNA(m)
        except Exception as err:     # noqa
            if type(err).__name__ == "CaseTimeout":
                raise
            bump(res, "unknown_rejected")
            return res
        violation(res, "unknown-name-accepted:%s" % ("last" if k == n - 1 else "first" if k == 0 else "inner"),
                  "residue %d named %r was accepted" % (k + 1, m.nodes[node]["resname"]), w)
        return res
    try:
        complement_dsDNA(m)
    except Exception as err:     # noqa
        if type(err).__name__ == "CaseTimeout":
            raise
        violation(res, "valid-strand-rejected:%s:%s" % ("circular" if circ else "linear", type(err).__name__),
                  "%s: %s" % (type(err).__name__, str(err)[:150]), w)
        return res
    bump(res, "strands_completed")
    if circ:
        bump(res, "circular")
    note(res, "terminal_bases", (seq[0], "first"))
    note(res, "terminal_bases", (seq[-1], "last"))
    names, resids, edges = snapshot(m, off)
    kind = "circular" if circ else "linear"
    if len(names) != 2 * n or resids != list(range(1, 2 * n + 1)):
        violation(res, "not-2n-residues:" + kind, "%d residues with ids %s..., expected 1..%d" % (len(names), resids[:6], 2 * n), w)
        return res
    if names[:n] != names0 or {e: l for e, l in edges.items() if max(e) <= n} != edges0:
        violation(res, "original-strand-modified:" + kind, "first strand changed: names %s -> %s" % (names0[:6], names[:6]), w)
    exp = [comp_name(names0[n - k]) for k in range(1, n + 1)]
    if names[n:] != exp:
        k = next(i for i in range(n) if names[n + i] != exp[i])
        violation(res, "complement-wrong:%s:%s" % (kind, "terminal" if k in (0, n - 1) else "inner"),
                  "residue n+%d is %r, complement of residue %d (%r) is %r" % (k + 1, names[n + k], n - k, names0[n - k - 1], exp[k]), w)
    # connectivity of the second strand: n+k -- n+k+1 mirrors n+1-k -- n-k
    exp_edges = {}
    for e, lab in edges0.items():
        a, b = tuple(e)
        exp_edges[frozenset((2 * n + 1 - a, 2 * n + 1 - b))] = lab
    got2 = {e: l for e, l in edges.items() if min(e) > n}
    cross = [e for e in edges if min(e) <= n < max(e)]
    if cross:
        violation(res, "strands-connected:" + kind, "edges %s join the two strands" % sorted(map(sorted, cross))[:3], w)
    if set(got2) != set(exp_edges):
        violation(res, "second-strand-connectivity:" + kind, "edges of the added strand differ: missing %s unexpected %s" %
                  (sorted(map(sorted, set(exp_edges) - set(got2)))[:3], sorted(map(sorted, set(got2) - set(exp_edges)))[:3]), w)
    else:
        nlab = 0
        for e, lab in exp_edges.items():
            if lab:
                nlab += 1
            if got2[e] != lab:
                violation(res, "edge-labels-not-copied:" + kind, "edge %s has labels %s, mirrored edge has %s" % (sorted(e), got2[e], lab), w)
                break
        bump(res, "labelled_edges_copied", nlab)
    # involution on names
    bump(res, "involution_checks")
    back = [comp_name(names[n + n - k]) for k in range(1, n + 1)]
    if back != names0:
        violation(res, "complement-not-involutive:" + kind, "complementing the added strand gives %s..., original %s..." % (back[:5], names0[:5]), w)
    return res


def run_e2e(cid, rng, workdir, res):
    """gen_params -dsdna on a synthetic DNA force field: one bead per nucleotide, backbone links"""
    from ..monitors import pipeline
    from ..oracle import itp_min
    pipeline.attach_gen_params()
    names = ["D" + b + s for b in "ACGT" for s in ("", "5", "3")]
    ff = []
    for nm in names:
        ff += ["[ moleculetype ]", "%s 1" % nm, "[ atoms ]", "1 P1 1 %s BB 1 0.0 72.0" % nm]
    ff += ["[ link ]", 'resname "%s"' % "|".join(names), "[ bonds ]", "BB +BB 1 0.35 1000"]
    ff += ["[ link ]", 'resname "%s"' % "|".join(names), "[ bonds ]", 'BB >BB 1 0.36 999 {"edge": false}', "[ edges ]", 'BB >BB {"linktype": "circle"}']
    (Path(workdir) / "dna.ff").write_text("\n".join(ff) + "\n")
    n = rng.randint(3, 25)
    seq = "".join(rng.choice("ACGT") for _ in range(n))
    if rng.random() < 0.2:
        # a strand that contains a residue without base-pair partner (a linker block of the user's own): the program has
        # to refuse it, and no topology may be written
        ff_bad = ff[:-0 or None] + ["[ moleculetype ]", "LNK 1", "[ atoms ]", "1 P1 1 LNK BB 1 0.0 72.0"]
        ff_bad = [ln.replace('resname "', 'resname "LNK|') for ln in ff_bad]
        (Path(workdir) / "dna.ff").write_text("\n".join(ff_bad) + "\n")
        nm = [ONE[c] for c in seq]
        nm[0] += "5"
        nm[-1] += "3"
        k_ = rng.randrange(0, n - 1)          # anywhere but the 3' end
        nm[k_] = "LNK"
        out_bad = Path(workdir) / "bad.itp"
        run = pipeline.run_gen_params(name="DS", outpath=out_bad, inpath=[Path(workdir) / "dna.ff"], lib=None,
                                      seq=["%s:1" % x for x in nm], seq_file=None, dsdna=True)
        res["sig"] = sig_of([seq, k_, "e2e-bad"])
        res["sample"] = {"sequence": seq, "unknown_residue_at": k_ + 1, "stratum": "gen_params -dsdna, strand with a linker"}
        res["nontrivial"] = True
        bump(res, "end_to_end_unknown_residue")
        if run["status"] == "ok" or out_bad.exists():
            violation(res, "unknown-name-accepted:end-to-end", "gen_params -dsdna on a strand whose residue %d is 'LNK' %s" %
                      (k_ + 1, "returned normally" if run["status"] == "ok" else "raised but left a file"),
                      {"sequence": seq, "position": k_ + 1})
        return res
    via_seq = rng.random() < 0.4
    circ = rng.random() < 0.4 and not via_seq
    out = Path(workdir) / "ds.itp"
    if via_seq:
        # the same strand given as a -seq list of name:count items
        nm = [ONE[c] for c in seq]
        nm[0] += "5"
        nm[-1] += "3"
        items = []
        for x in nm:
            if items and items[-1][0] == x:
                items[-1][1] += 1
            else:
                items.append([x, 1])
        run = pipeline.run_gen_params(name="DS", outpath=out, inpath=[Path(workdir) / "dna.ff"], lib=None,
                                      seq=["%s:%d" % (a, b) for a, b in items], seq_file=None, dsdna=True)
        bump(res, "end_to_end_via_seq_list")
    else:
        p = Path(workdir) / "d.ig"
        p.write_text("; DNA test\ntitle\n" + seq + ("2" if circ else "1") + "\n")
        run = pipeline.run_gen_params(name="DS", outpath=out, inpath=[Path(workdir) / "dna.ff"], lib=None, seq=None, seq_file=p, dsdna=True)
    res["sig"] = sig_of([seq, circ, "e2e"])
    res["sample"] = {"sequence": seq, "circular": circ, "stratum": "gen_params -dsdna"}
    res["nontrivial"] = True
    w = {"sequence": seq, "circular": circ}
    if run["status"] != "ok":
        violation(res, "dsdna-end-to-end-fails:%s" % run.get("exc_type"), run["error"], w)
        return res
    bump(res, "end_to_end")
    obs = itp_min.read_itp(str(out))
    got = [a["resname"] for a in obs["atoms"]]
    first = [ONE[c] for c in seq]
    if not circ:
        first[0] += "5"
        first[-1] += "3"
    exp = first + [comp_name(first[n - k]) for k in range(1, n + 1)]
    if got != exp:
        violation(res, "dsdna-end-to-end-residues", "written residues %s, expected %s" % (got[:8], exp[:8]), w)
    nb = sum(obs["inter"].get("bonds", {}).values())
    want = 2 * (n - 1) + (2 if circ else 0)
    if nb != want:
        violation(res, "dsdna-end-to-end-bonds", "%d backbone bonds written, two %s strands of %d need %d" %
                  (nb, "circular" if circ else "linear", n, want), w)
    return res
