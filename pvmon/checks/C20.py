"""C20 - outputs appear only after success and never clobber existing files."""
import hashlib
import json
import os
import shutil
import sys
from pathlib import Path

import numpy as np

from ..core import new_result, bump, violation, sig_of, note

PID = "C20"
LEVEL = "fault_enumeration"
RULE = ("crash-point enumeration on the three programs: (1) a sys.monitoring LINE failpoint raises InjectedFault at every "
        "statement start (first and second execution) of the bodies of gen_params / gen_coords / gen_seq and of the "
        "serialisation code they call (vermouth write_molecule_itp, write_gro, deferred_open, DeferredFileWriter.open/"
        "write/_write_file); (2) stage wrappers raise at entry and at exit of every stage function (reading, sequence "
        "parsing, mapping, link application, modifications, missing-link search, template generation, ligand "
        "annotation, system building, back-mapping, serialisation). The set of points is *measured* by a discovery run, "
        "not hard coded. Before every run the output directory holds a sentinel file at the output path; the directory "
        "(names, inode, mtime, size, sha256) is compared before/after. A fault before the writer's flush begins must "
        "leave it identical; after the flush ends the complete file (equal to an un-instrumented run modulo the header "
        "line) and the sentinel under #name.1# must be there. The temporary directory of the deferred writer is put on "
        "another file system when one is available. non-trivial = injected run that raised the fault; distinct = "
        "(program, input, crash point)"
        ' Later: after every failed call the next flush of the deferred writer is played and the directory compared again; every second fault point runs without a previous file; output names ending in letters of the suffix; a swallowed fault must still leave the complete output.')
ASSUMPTIONS = ["an exception models a crash; DeferredFileWriter().close() afterwards models process exit",
               "faults strictly inside the writer's flush (between backup and final move) are recorded, not judged",
               "gen_seq has no backup clause; its crash points after open(outpath) are recorded only"]
CASE_TIMEOUT = 300
WALL = {"quick": 1200, "thorough": 10800}
REQUIRED = {"faults_injected": 150, "faults_before_flush": 120, "faults_after_flush": 2, "stage_boundary_faults": 30,
            "line_points_enumerated": 80, "success_runs_checked": 3, "programs": 3,
            "cli_killed": 10, "queue_checks_before_serialisation": 100, "faults_without_previous_file": 60}
NCHUNK = 8


class InjectedFault(Exception):
    pass


PRE_SERIALISATION = {"start", "reading-force-field", "reading-build-files", "reading-sequence", "reading-sequence-file", "mapping",
                     "link-application", "modifications", "missing-link-search", "reading-topology", "preprocessing",
                     "reading-coordinates", "template-generation", "ligand-annotation", "ligand-hand-back", "system-building",
                     "back-mapping", "sequence-graph", "termini", "labels"}


def plan(tier, seed):
    inputs = {"gen_params": [0], "gen_coords": [0], "gen_seq": [0]} if tier == "quick" else \
        {"gen_params": [0, 1, 2, 3], "gen_coords": [0, 1, 2, 3], "gen_seq": [0, 1]}
    cids = []
    for prog, lst in inputs.items():
        for i in lst:
            cids.append([prog, i, "success", 0])
            for k in range(NCHUNK):
                cids.append([prog, i, "faults", k])
    # process level: the real command line program is killed (SIGKILL) at seeded moments
    nk = 4 if tier == "quick" else 24
    for prog in inputs:
        for k in range(nk):
            cids.append([prog, 0, "kill", k])
    return cids


def EXHAUSTIVE(tier):
    return {"crash_points": "every LINE event (1st and 2nd execution) of the monitored code objects and every stage "
                            "entry/exit observed in the discovery run of each (program, input)"}


# ----------------------------------------------------------------------------- inputs
def make_input(prog, idx, workdir, rng):
    """returns (callable(outpath), output file name)"""
    d = Path(workdir)
    if prog == "gen_params":
        from polyply import gen_params, TEST_DATA
        ff = ["[ moleculetype ]", "RA 1", "[ atoms ]", "1 P1 1 RA A0 1 0.0 72.0", "2 P2 1 RA A1 2 0.0 72.0", "[ bonds ]",
              "A0 A1 1 0.3 1000", "[ link ]", 'resname "RA"', "[ bonds ]", "A1 +A0 1 0.35 1250"]
        (d / "in.ff").write_text("\n".join(ff) + "\n")
        if idx == 0:
            kw = dict(name="P", inpath=[d / "in.ff"], lib=None, seq=["RA:4"], seq_file=None)
        elif idx == 1:
            kw = dict(name="PEO", inpath=[Path(TEST_DATA) / "gen_params/input/PEO.martini.3.itp"], lib=None, seq=["PEO:5"], seq_file=None)
        elif idx == 2:
            (d / "s.txt").write_text("RA RA RA\nRA RA\n")
            kw = dict(name="P", inpath=[d / "in.ff"], lib=None, seq=None, seq_file=d / "s.txt")
        else:
            kw = dict(name="PEO", inpath=[], lib=["martini3"], seq=["PEO:6"], seq_file=None)
        return (lambda outpath: gen_params(outpath=outpath, **kw)), ["polymer.itp", "out.itp", "x.p.itp", "tip.itp"][idx % 4]
    if prog == "gen_coords":
        from polyply import gen_coords
        top = ["[ defaults ]", "1 2 no 1.0 1.0", "[ atomtypes ]", "A 36.0 0.0 A 0.47 3.5", "[ moleculetype ]", "M 1", "[ atoms ]",
               "1 A 1 RA X 1 0.0", "2 A 2 RA X 2 0.0", "3 A 3 RB X 3 0.0", "[ bonds ]", "1 2 1 0.35 1000", "2 3 1 0.35 1000",
               "[ moleculetype ]", "W 1", "[ atoms ]", "1 A 1 WAT W 1 0.0", "[ system ]", "x", "[ molecules ]", "M 2", "W 2"]
        (d / "s.top").write_text("\n".join(top) + "\n")
        kw = dict(toppath=d / "s.top", name="x", box=np.array([5.0, 5.0, 5.0]))
        if idx == 1:
            (d / "b.bld").write_text("[ molecule ]\nM 0 2\n[ sphere ]\nRA 1 3 in 2.5 2.5 2.5 2.4\n")
            kw["build"] = [d / "b.bld"]
        elif idx == 2:
            kw["ligands"] = [["M#0-RA#1", "W#2"]]
        elif idx == 3:
            (d / "in.gro").write_text("x\n1\n    1RA       X    1   1.000   1.000   1.000\n   5.00000   5.00000   5.00000\n")
            kw["coordpath"] = d / "in.gro"
            kw.pop("box")
        return (lambda outpath: gen_coords(outpath=outpath, **kw)), ["polymer.gro", "out.gro", "cargo.gro", "run.2.gro"][idx % 4]
    from polyply import gen_seq
    if idx == 0:
        kw = dict(name="s", seq=["A", "B"], macro_strings=["A:3:1:PEO-1.0", "B:2:2:PS-1.0"], connects=["0:1:2-0"],
                  modifications=["0:OHter"], tags=["1:chiral:R\udce9-1.0"])       # a byte that is not UTF-8, as it arrives from a shell
    else:
        kw = dict(name="s", seq=["A"], macro_strings=["A:4:1:PEO-1.0"], connects=[], modifications=[], tags=[])
    return (lambda outpath: gen_seq(outpath=outpath, **kw)), ["seq.json", "out.json"][idx % 2]


# ----------------------------------------------------------------------------- monitors
STATE = {"phase": "before", "events": [], "armed": None, "counts": {}, "discover": None, "stage": "start", "fired": None}
TOOL = None
CODES = {}
STAGES = []
_done = False


def setup():
    global _done, TOOL
    if _done:
        return
    _done = True
    import polyply
    import polyply.src.gen_itp as gi
    import polyply.src.gen_coords as gc
    import polyply.src.gen_seq as gs
    import vermouth.gmx.itp as vitp
    import vermouth.gmx.gro as vgro
    import vermouth.file_writer as fw
    mon = sys.monitoring
    TOOL = mon.DEBUGGER_ID
    mon.use_tool_id(TOOL, "pvmon-failpoints")
    targets = {"gen_params": gi.gen_params, "gen_coords": gc.gen_coords, "gen_seq": gs.gen_seq,
               "write_molecule_itp": vitp.write_molecule_itp, "write_gro": vgro.write_gro,
               "deferred_open": fw.deferred_open, "DeferredFileWriter.open": fw.DeferredFileWriter.open,
               "DeferredFileWriter._open_tmp_file": fw.DeferredFileWriter._open_tmp_file,
               "DeferredFileWriter.write": fw.DeferredFileWriter.write,
               "DeferredFileWriter._write_file": fw.DeferredFileWriter._write_file}
    for name, fn in targets.items():
        code = getattr(fn, "__wrapped__", fn).__code__
        CODES[code] = name

    def on_line(code, line):
        name = CODES.get(code)
        if name is None:
            return mon.DISABLE
        key = (name, line)
        STATE["counts"][key] = STATE["counts"].get(key, 0) + 1
        occ = STATE["counts"][key]
        if STATE["discover"] is not None:
            if occ <= 2:
                STATE["discover"].append(("line", name, line, occ, STATE["phase"], STATE["stage"]))
            return None
        if STATE["armed"] == ("line", name, line, occ):
            STATE["armed"] = None
            STATE["fired"] = {"phase": STATE["phase"], "stage": STATE["stage"], "point": ("line", name, line, occ)}
            raise InjectedFault("%s:%d#%d" % (name, line, occ))
        return None
    mon.register_callback(TOOL, mon.events.LINE, on_line)
    for code in CODES:
        mon.set_local_events(TOOL, code, mon.events.LINE)

    # ---- stage wrappers ------------------------------------------------------------------------------------
    from .. import attach
    import polyply.src.load_library as ll
    from polyply.src.meta_molecule import MetaMolecule
    from polyply.src.map_to_molecule import MapToMolecule
    from polyply.src.apply_links import ApplyLinks
    from polyply.src.apply_modifications import ApplyModifications
    from polyply.src.topology import Topology
    from polyply.src.generate_templates import GenerateTemplates
    from polyply.src.annotate_ligands import AnnotateLigands
    from polyply.src.build_system import BuildSystem
    from polyply.src.backmap import Backmap

    def stage(label, flush=False):
        def make(orig):
            def wrapper(*a, **k):
                cnt = STATE["counts"]
                ekey = ("stage-entry", label)
                cnt[ekey] = cnt.get(ekey, 0) + 1
                prev_stage = STATE["stage"]
                STATE["stage"] = label
                if flush:
                    STATE["phase"] = "flushing"
                if STATE["discover"] is not None and cnt[ekey] == 1:
                    STATE["discover"].append(("stage-entry", label, 0, 1, "before" if flush else STATE["phase"], label))
                if STATE["armed"] == ("stage-entry", label, 0, cnt[ekey]):
                    STATE["armed"] = None
                    STATE["fired"] = {"phase": "before" if flush else STATE["phase"], "stage": label, "point": ("stage-entry", label)}
                    raise InjectedFault("entry " + label)
                out = orig(*a, **k)
                if flush:
                    STATE["phase"] = "after"
                xkey = ("stage-exit", label)
                cnt[xkey] = cnt.get(xkey, 0) + 1
                if STATE["discover"] is not None and cnt[xkey] == 1:
                    STATE["discover"].append(("stage-exit", label, 0, 1, STATE["phase"], label))
                if STATE["armed"] == ("stage-exit", label, 0, cnt[xkey]):
                    STATE["armed"] = None
                    STATE["fired"] = {"phase": STATE["phase"], "stage": label, "point": ("stage-exit", label)}
                    raise InjectedFault("exit " + label)
                return out
            return wrapper
        return make

    attach.import_all_polyply()
    attach.wrap_function(ll, "load_ff_library", stage("reading-force-field"))
    attach.wrap_function(ll, "load_build_files", stage("reading-build-files"))
    attach.wrap_method(MetaMolecule, "from_monomer_seq_linear", stage("reading-sequence"))
    attach.wrap_method(MetaMolecule, "from_sequence_file", stage("reading-sequence-file"))
    attach.wrap_method(MapToMolecule, "run_molecule", stage("mapping"))
    attach.wrap_method(ApplyLinks, "run_molecule", stage("link-application"))
    attach.wrap_method(ApplyModifications, "run_molecule", stage("modifications"))
    import polyply.src.graph_utils as gu
    attach.wrap_function(gu, "find_missing_edges", stage("missing-link-search"))
    attach.wrap_method(Topology, "from_gmx_topfile", stage("reading-topology"))
    attach.wrap_method(Topology, "preprocess", stage("preprocessing"))
    attach.wrap_method(Topology, "add_positions_from_file", stage("reading-coordinates"))
    attach.wrap_method(GenerateTemplates, "run_system", stage("template-generation"))
    attach.wrap_method(AnnotateLigands, "run_system", stage("ligand-annotation"))
    attach.wrap_method(AnnotateLigands, "split_ligands", stage("ligand-hand-back"))
    attach.wrap_method(BuildSystem, "run_system", stage("system-building"))
    attach.wrap_method(Backmap, "run_system", stage("back-mapping"))
    attach.wrap_method(fw.DeferredFileWriter, "write", stage("flush", flush=True))
    # deferred_open is a bound method of the singleton captured at import time: rebind the name where it is used
    orig_do = fw.deferred_open
    new_do = stage("open-deferred")(orig_do)
    for mod in list(sys.modules.values()):
        if mod is not None and getattr(mod, "deferred_open", None) is orig_do:
            setattr(mod, "deferred_open", new_do)
    import polyply.src.gen_seq as gsm
    attach.wrap_function(gsm, "generate_seq_graph", stage("sequence-graph"))
    attach.wrap_function(gsm, "_apply_termini_modifications", stage("termini"))
    attach.wrap_function(gsm, "_tag_nodes", stage("labels"))
    # gen_params / gen_coords call vermouth.gmx.itp.write_molecule_itp / vermouth.gmx.gro.write_gro by attribute
    orig_gro = vgro.write_gro
    vgro.write_gro = stage("serialisation-gro")(orig_gro)
    vitp.write_molecule_itp = stage("serialisation-itp")(vitp.write_molecule_itp)
    # gen_seq opens its output with builtins.open: phase changes when the output path is opened for writing
    def audit(event, args):
        if event == "open" and STATE.get("outpath") and args and str(args[0]) == STATE["outpath"] and args[1] and "w" in str(args[1]):
            # gen_seq: writing starts when the output is opened *after* the last graph-building stage (labels) returned;
            # an earlier open does not end the 'before writing' phase
            if STATE["counts"].get(("stage-exit", "labels")):
                STATE["phase"] = "flushing"
    sys.addaudithook(audit)


def fs_snapshot(d):
    out = {}
    for name in sorted(os.listdir(d)):
        p = os.path.join(d, name)
        st = os.lstat(p)
        if os.path.isdir(p) and not os.path.islink(p):
            out[name] = (st.st_ino, 0, 0, "directory:" + ",".join(sorted(os.listdir(p))))
            continue
        if os.path.islink(p):
            out[name] = (st.st_ino, st.st_mtime_ns, st.st_size, "link:" + os.readlink(p))
            continue
        out[name] = (st.st_ino, st.st_mtime_ns, st.st_size, hashlib.sha256(open(p, "rb").read()).hexdigest())
    return out


def fresh_outdir(workdir, fname, tag):
    d = os.path.join(workdir, "out_" + tag)
    shutil.rmtree(d, ignore_errors=True)
    os.makedirs(d)
    with open(os.path.join(d, fname), "w") as fh:
        fh.write("SENTINEL previous content\n")
    with open(os.path.join(d, "other.txt"), "w") as fh:
        fh.write("unrelated\n")
    return d


def reset_state(outpath=None):
    STATE.update({"phase": "before", "armed": None, "counts": {}, "discover": None, "stage": "start", "fired": None,
                  "outpath": str(outpath) if outpath else None})


def _fw_locked():
    import vermouth.file_writer as _fw
    return _fw.lock.locked()


def other_fs_tmpdir(workdir):
    """put the deferred writer's temp files on another file system than the output directory if possible"""
    for cand in ("/dev/shm", "/run/shm", "/var/tmp"):
        try:
            if os.path.isdir(cand) and os.access(cand, os.W_OK) and os.stat(cand).st_dev != os.stat(workdir).st_dev:
                d = os.path.join(cand, "pvmon_c20_%d" % os.getpid())
                os.makedirs(d, exist_ok=True)
                return d
        except OSError:
            pass
    return None


CLI = {"gen_params": (["gen_params", "-f", "in.ff", "-seq", "RA:6", "-name", "P", "-o", "polymer.itp"], "polymer.itp"),
       "gen_coords": (["gen_coords", "-p", "s.top", "-o", "polymer.gro", "-name", "x", "-box", "5", "5", "5"], "polymer.gro"),
       "gen_seq": (["gen_seq", "-name", "s", "-from_string", "A:6:1:PEO-1.0", "B:3:2:PS-1.0", "-seq", "A", "B", "-connects",
                    "0:1:5-0", "-o", "seq.json"], "seq.json")}


def run_kill(cid, rng, workdir, res):
    """SIGKILL the real CLI at a seeded moment; the output directory must be unchanged, or hold the complete file
    (and the backup), or be in the writer's own hand-over state (recorded)"""
    import signal
    import subprocess
    import time
    from ..core import REPO
    prog, idx, mode, k = cid
    args, fname = CLI[prog]
    make_input(prog, 0, workdir, rng)          # writes in.ff / s.top into workdir
    env = dict(os.environ, PYTHONPATH=REPO, TQDM_DISABLE="1", TMPDIR=os.path.join(workdir, "tmp"))
    os.makedirs(env["TMPDIR"], exist_ok=True)
    exe = [sys.executable, os.path.join(REPO, "bin", "polyply")] + args

    def prep(tag):
        d = fresh_outdir(workdir, fname, tag)
        for f in ("in.ff", "s.top"):
            if os.path.exists(os.path.join(workdir, f)):
                shutil.copy(os.path.join(workdir, f), os.path.join(d, f))
        return d
    d0 = prep("kref")
    t0 = time.time()
    p = subprocess.run(exe, cwd=d0, env=env, stdout=subprocess.DEVNULL, stderr=subprocess.PIPE, timeout=120)
    T = time.time() - t0
    res["sig"] = sig_of(cid)
    res["sample"] = {"program": prog, "mode": "SIGKILL on the command line program", "command": args, "runtime_s": round(T, 2)}
    note(res, "programs", prog)
    if p.returncode != 0:
        res["status"] = "error"
        res["error"] = "reference CLI run failed: " + p.stderr.decode()[-400:]
        return res
    ref = open(os.path.join(d0, fname), "rb").read()
    for j in range(3):
        d = prep("k%d" % j)
        before = fs_snapshot(d)
        frac = rng.uniform(0.3, 1.0)
        for attempt in range(4):
            # the machine load changes between the reference run and this one: when the program finished before the
            # signal, the run time estimate is replaced by what was just measured and the run is repeated
            delay = frac * T
            t1 = time.time()
            proc = subprocess.Popen(exe, cwd=d, env=env, stdout=subprocess.DEVNULL, stderr=subprocess.DEVNULL)
            time.sleep(delay)
            alive = proc.poll() is None
            if alive:
                proc.send_signal(signal.SIGKILL)
            proc.wait()
            after = fs_snapshot(d)
            if alive or attempt == 3:
                break
            T = min(T, time.time() - t1 - 0.0) * 0.9
            bump(res, "cli_finished_before_kill_retried")
            shutil.rmtree(d)
            d = prep("k%d" % j)
            before = fs_snapshot(d)
        bump(res, "cli_runs")
        if not alive:
            bump(res, "cli_finished_before_kill")
        else:
            bump(res, "cli_killed")
        res["nontrivial"] = True
        bak = "#%s.1#" % fname
        w = {"program": prog, "command": args, "killed_after_s": round(delay, 3), "runtime_s": round(T, 3),
             "before": {n: v[2:] for n, v in before.items()}, "after": {n: v[2:] for n, v in after.items()}}
        if prog == "gen_coords":
            # coordinates are random: complete = same number of lines, ending with the box line of the reference
            same_tail = lambda b: len(b.split(b"\n")) == len(ref.split(b"\n")) and b.split(b"\n")[-2:] == ref.split(b"\n")[-2:]
        else:
            same_tail = lambda b: b.split(b"\n", 1)[-1] == ref.split(b"\n", 1)[-1]
        if after == before:
            bump(res, "kill_state_unchanged")
        elif fname in after and same_tail(open(os.path.join(d, fname), "rb").read()) and \
                (prog == "gen_seq" or (bak in after and after[bak][3] == before[fname][3])):
            bump(res, "kill_state_complete")
        elif prog != "gen_seq" and fname not in after and bak in after and after[bak][3] == before[fname][3]:
            bump(res, "kill_state_handover_recorded")          # between the two moves of the writer
        elif prog == "gen_seq" and fname in after and ref.startswith(open(os.path.join(d, fname), "rb").read()):
            bump(res, "kill_state_partial_json_recorded")       # writing had started
        else:
            changed = sorted(set(after) ^ set(before)) + [n for n in after if n in before and after[n] != before[n]]
            violation(res, "%s:killed-process-leaves-damaged-output" % prog, "after SIGKILL at %.2f of the runtime the "
                      "directory changed (%s) but holds neither the complete output nor the untouched previous file" %
                      (delay / T, changed), w)
    return res


def run_case(cid, rng, workdir):
    res = new_result()
    prog, idx, mode, chunk = cid
    if mode == "kill":
        return run_kill(cid, rng, workdir, res)
    from vermouth.file_writer import DeferredFileWriter
    import logging
    logging.getLogger("polyply").setLevel(logging.ERROR)
    runner, fname = make_input(prog, idx, workdir, rng)
    tmpd = other_fs_tmpdir(workdir)
    DeferredFileWriter()._tmpdir = tmpd
    if tmpd:
        bump(res, "temp_dir_on_other_filesystem")
    note(res, "programs", prog)
    seed = 12345

    def seeded():
        import random
        random.seed(seed)
        np.random.seed(seed)

    try:
        # ---- reference + discovery ---------------------------------------------------------------------------
        d0 = fresh_outdir(workdir, fname, "ref")
        reset_state(os.path.join(d0, fname))
        STATE["discover"] = []
        seeded()
        before0 = fs_snapshot(d0)
        try:
            runner(Path(d0) / fname)
        except Exception as err0:          # noqa
            if type(err0).__name__ == "CaseTimeout":
                raise
            # the un-faulted reference run fails by itself: whatever stage it failed in, the directory tells whether the
            # failure came before anything was written
            STATE["discover"] = None
            after0 = fs_snapshot(d0)
            res["sig"] = sig_of([prog, idx, mode, chunk])
            res["nontrivial"] = True
            if after0 != before0:
                changed = sorted(set(after0) ^ set(before0)) + [k for k in after0 if k in before0 and after0[k] != before0[k]]
                violation(res, "%s:failing-run-damages-output" % prog, "the run failed with %s: %s and the directory changed: %s" %
                          (type(err0).__name__, str(err0)[:120], changed),
                          {"program": prog, "input": idx, "before": {k: v[2:] for k, v in before0.items()},
                           "after": {k: v[2:] for k, v in after0.items()}})
            else:
                res["status"] = "rejected"
            return res
        points = list(STATE["discover"])
        STATE["discover"] = None
        ref_bytes = open(os.path.join(d0, fname), "rb").read()
        res["sig"] = sig_of([prog, idx, mode, chunk])
        nline = sum(1 for p in points if p[0] == "line")
        res["sample"] = {"program": prog, "input": idx, "mode": mode, "chunk": chunk, "points_enumerated": len(points),
                         "examples": [list(p) for p in points[:3] + points[-3:]]}
        w0 = {"program": prog, "input": idx}
        if mode == "success":
            bump(res, "line_points_enumerated", nline)
            bump(res, "stage_points_enumerated", len(points) - nline)
            bump(res, "success_runs_checked")
            res["nontrivial"] = True
            after = fs_snapshot(d0)
            if fname not in after:
                violation(res, "%s:no-output-after-success" % prog, "program returned but %s is missing" % fname, w0)
                return res
            if prog != "gen_seq":
                bak = "#%s.1#" % fname
                if bak not in after or open(os.path.join(d0, bak)).read() != "SENTINEL previous content\n":
                    violation(res, "%s:previous-file-not-backed-up" % prog, "after success the directory holds %s; the file "
                              "previously at the output path must be kept as %s" % (sorted(after), bak), w0)
            # complete: equal to a second un-instrumented run modulo the header line
            d1 = fresh_outdir(workdir, fname, "ref2")
            os.remove(os.path.join(d1, fname))
            reset_state(os.path.join(d1, fname))
            seeded()
            runner(Path(d1) / fname)
            b2 = open(os.path.join(d1, fname), "rb").read()
            if ref_bytes.split(b"\n", 1)[-1] != b2.split(b"\n", 1)[-1] or len(ref_bytes) < 20:
                violation(res, "%s:output-incomplete-after-success" % prog, "output written over an existing file (%d bytes) differs "
                          "from the output of the same run into an empty directory (%d bytes)" % (len(ref_bytes), len(b2)), w0)
            if sorted(after) != sorted({fname, "other.txt"} | ({"#%s.1#" % fname} if prog != "gen_seq" else set())):
                violation(res, "%s:stray-files-after-success" % prog, "directory after success: %s" % sorted(after), w0)
            # a relative output path, given from a working directory that is not the directory of the inputs: the file
            # (and the backup of what was there) appear in the working directory
            d5 = fresh_outdir(workdir, fname, "relout")
            here5 = os.getcwd()
            os.chdir(d5)
            reset_state(os.path.join(d5, fname))
            seeded()
            raised5 = None
            try:
                runner(Path(fname))
            except Exception as e5:          # noqa
                if type(e5).__name__ == "CaseTimeout":
                    os.chdir(here5)
                    raise
                raised5 = e5
            finally:
                os.chdir(here5)
            if raised5 is not None:
                try:
                    DeferredFileWriter().close()
                except Exception:
                    pass
            bump(res, "runs_with_a_relative_output_path")
            after5 = fs_snapshot(d5)
            b5 = open(os.path.join(d5, fname), "rb").read() if fname in after5 and os.path.isfile(os.path.join(d5, fname)) else b""
            if raised5 is not None or ref_bytes.split(b"\n", 1)[-1] != b5.split(b"\n", 1)[-1] or \
                    (prog != "gen_seq" and "#%s.1#" % fname not in after5):
                violation(res, "%s:relative-output-path-not-honoured" % prog, "run with the output given as %r from the working directory "
                          "%s: %s; the directory holds %s" % (fname, "relout", "raised %r" % raised5 if raised5 is not None else
                                                             "output missing or different (%d bytes)" % len(b5), sorted(after5)), w0)
            if prog != "gen_seq":
                # an output path inside a directory that does not exist: the run cannot put its file there, so it fails;
                # it must not create the directory, and must not leave anything behind in the working directory
                d3 = fresh_outdir(workdir, fname, "nodir")
                cwd3 = os.path.join(workdir, "cwd_nodir")
                os.makedirs(cwd3, exist_ok=True)
                before3, beforecwd = fs_snapshot(d3), sorted(os.listdir(cwd3))
                here3 = os.getcwd()
                os.chdir(cwd3)
                reset_state(os.path.join(d3, "missing_dir", fname))
                seeded()
                raised3 = None
                try:
                    runner(Path(d3) / "missing_dir" / fname)
                except Exception as e3:          # noqa
                    if type(e3).__name__ == "CaseTimeout":
                        os.chdir(here3)
                        raise
                    raised3 = e3
                finally:
                    os.chdir(here3)
                try:
                    DeferredFileWriter().close()
                except Exception:
                    pass
                DeferredFileWriter().open_files.clear()
                bump(res, "runs_into_a_missing_directory")
                after3, aftercwd = fs_snapshot(d3), sorted(os.listdir(cwd3))
                if raised3 is not None and (after3 != before3 or aftercwd != beforecwd):
                    violation(res, "%s:failed-run-leaves-files-behind" % prog, "output path in a directory that does not exist: the run "
                              "failed (%s) and left %s in the output directory, %s in the working directory" %
                              (type(raised3).__name__, sorted(set(after3) ^ set(before3)), sorted(set(aftercwd) ^ set(beforecwd))), w0)
                # the file at the output path is a symbolic link to a file kept elsewhere: that file is not the output and
                # is left alone; what was at the path (the link) is backed up next to the output
                d2 = fresh_outdir(workdir, fname, "link")
                os.remove(os.path.join(d2, fname))
                arch = os.path.join(d2, "archive")
                os.makedirs(arch)
                tgt = os.path.join(arch, "run1" + os.path.splitext(fname)[1])
                with open(tgt, "w") as fh:
                    fh.write("SENTINEL archived content\n")
                os.symlink(tgt, os.path.join(d2, fname))
                reset_state(os.path.join(d2, fname))
                seeded()
                runner(Path(d2) / fname)
                bump(res, "success_runs_onto_a_symbolic_link")
                if sorted(os.listdir(arch)) != [os.path.basename(tgt)] or open(tgt).read() != "SENTINEL archived content\n":
                    violation(res, "%s:file-behind-a-link-at-the-output-path-touched" % prog, "the output path was a symbolic link to %s; "
                              "after the run that directory holds %s and the file reads %r" %
                              (os.path.relpath(tgt, d2), sorted(os.listdir(arch)), open(tgt).read()[:40] if os.path.exists(tgt) else None), w0)
                if not os.path.exists(os.path.join(d2, fname)) or os.path.islink(os.path.join(d2, fname)) or \
                        open(os.path.join(d2, fname), "rb").read().split(b"\n", 1)[-1] != b2.split(b"\n", 1)[-1] and prog != "gen_coords":
                    violation(res, "%s:no-output-after-success" % prog, "output path was a symbolic link: after the run %s is %s" %
                              (fname, "missing" if not os.path.exists(os.path.join(d2, fname)) else "still the link / incomplete"), w0)
                if not os.path.lexists(os.path.join(d2, "#%s.1#" % fname)):
                    violation(res, "%s:previous-file-not-backed-up" % prog, "output path was a symbolic link: no #%s.1# next to the "
                              "output (%s)" % (fname, sorted(os.listdir(d2))), w0)
            return res
        # ---- injected faults ---------------------------------------------------------------------------------
        mine = points[chunk::NCHUNK]
        for pt in mine:
            kind, name, line, occ, phase_seen, stage_seen = pt
            d = fresh_outdir(workdir, fname, "f")
            noprev = (points.index(pt) % 2 == 1)
            if noprev:
                os.remove(os.path.join(d, fname))          # no file at the output path yet
                bump(res, "faults_without_previous_file")
            # every seventh fault before the flush runs with an output path inside a directory that does not exist yet:
            # a run that fails must not have created it
            nodir = (points.index(pt) % 7 == 3) and phase_seen == "before" and prog != "gen_seq"
            target = (Path(d) / "new_dir" / fname) if nodir else (Path(d) / fname)
            if nodir:
                bump(res, "faults_with_output_in_a_missing_directory")
            before = fs_snapshot(d)
            reset_state(str(target))
            STATE["armed"] = (kind, name, line, occ)
            seeded()
            raised = None
            try:
                runner(target)
            except InjectedFault as e:
                raised = e
            except Exception as e:      # noqa
                if type(e).__name__ == "CaseTimeout":
                    raise
                raised = e
            fired = STATE["fired"]
            STATE["armed"] = None
            # a fault at a stage before serialisation must not leave a pending write behind: whatever is queued in the
            # deferred writer would be moved to this run's output path by the flush of any *later* run in the process
            queued = [str(x[1]) for x in DeferredFileWriter().open_files]
            if fired is not None and fired["stage"] in PRE_SERIALISATION and queued:
                violation(res, "%s:write-queued-before-serialisation" % prog, "fault at %s (stage %s): the deferred writer already "
                          "holds a pending write for %s" % (pt[:4], fired["stage"], queued),
                          {"program": prog, "input": idx, "crash_point": list(pt[:4]), "stage": fired["stage"]})
            if fired is not None and fired["stage"] in PRE_SERIALISATION:
                bump(res, "queue_checks_before_serialisation")
            # the programs are library functions as well (polyply.gen_params ...): when the failed call has returned to its
            # caller, the next successful call in the same process flushes the writer. Whatever the failed run left
            # queued for its own output path is put in place by that flush - play it and look at the directory
            later = None
            after_call = fs_snapshot(d)
            if fired is not None and fired["phase"] == "before" and raised is not None and prog != "gen_seq" and \
                    not _fw_locked():
                mine_q = [x for x in DeferredFileWriter().open_files if os.path.basename(str(x[1])) == fname]
                if mine_q:
                    try:
                        DeferredFileWriter().write()
                    except Exception:
                        pass
                    later = fs_snapshot(d)
                bump(res, "later_flush_played")
            try:
                DeferredFileWriter().close()       # process exit
            except Exception:
                pass
            DeferredFileWriter().open_files.clear()
            import vermouth.file_writer as _fw
            if _fw.lock.locked():
                # the fault hit between acquiring the module lock and entering the with-body: a dead process holds
                # no lock, so release it for the next run in this worker
                _fw.lock.release()
                bump(res, "writer_lock_released_after_fault")
            after = after_call
            if fired is None:
                bump(res, "points_not_reached_again")
                continue
            bump(res, "faults_injected")
            if kind != "line":
                bump(res, "stage_boundary_faults")
            note(res, "crash_points", [prog, idx, kind, name, line, occ])
            res["nontrivial"] = True
            w = {"program": prog, "input": idx, "crash_point": list(pt[:4]), "stage": fired["stage"], "phase": fired["phase"],
                 "before": {k: v[2:] for k, v in before.items()}, "after": {k: v[2:] for k, v in after.items()}}
            if raised is None and prog != "gen_seq":
                # the injected exception did not reach the caller: the program reports success, so the complete file has
                # to be in place (second sentence of the statement)
                bump(res, "faults_swallowed_by_the_program")
                ok = fname in after and open(os.path.join(d, fname), "rb").read().split(b"\n", 1)[-1] == ref_bytes.split(b"\n", 1)[-1]
                if not ok:
                    violation(res, "%s:returns-normally-without-complete-output" % prog, "fault at %s (stage %s) was swallowed: the "
                              "call returned normally but %s is %s" % (pt[:4], fired["stage"], fname,
                                                                        "missing" if fname not in after else "not the complete output"), w)
                continue
            if fired["phase"] == "before" and later is not None and later != before:
                changed = sorted(set(later) ^ set(before)) + [k for k in later if k in before and later[k] != before[k]]
                violation(res, "%s:output-of-failed-run-appears-at-next-flush" % prog,
                          "fault at %s (stage %s): the call raised, but its unfinished output stayed queued in the deferred "
                          "writer; the flush of the next successful call in the process changes the directory: %s" %
                          (pt[:4], fired["stage"], changed), dict(w, after_next_flush={k: v[2:] for k, v in later.items()}))
            if fired["phase"] == "before":
                bump(res, "faults_before_flush")
                if after != before:
                    changed = sorted(set(after) ^ set(before)) + [k for k in after if k in before and after[k] != before[k]]
                    what = "created" if set(after) - set(before) else ("removed" if set(before) - set(after) else
                                                                       ("truncated" if fname in after and fname in before and
                                                                        after[fname][2] < before[fname][2] else "modified"))
                    violation(res, "%s:output-%s-on-failure-before-writing" % (prog, what),
                              "fault at %s (stage %s): directory changed: %s" % (pt[:4], fired["stage"], changed), w)
            elif fired["phase"] == "after":
                bump(res, "faults_after_flush")
                ok = fname in after and open(os.path.join(d, fname), "rb").read().split(b"\n", 1)[-1] == ref_bytes.split(b"\n", 1)[-1]
                if not ok:
                    violation(res, "%s:output-incomplete-after-flush" % prog, "fault after the flush at %s: output missing or "
                              "incomplete" % (pt[:4],), w)
                if prog != "gen_seq" and not noprev and ("#%s.1#" % fname) not in after:
                    violation(res, "%s:previous-file-not-backed-up" % prog, "fault after the flush at %s: no backup of the previous "
                              "file (%s)" % (pt[:4], sorted(after)), w)
            else:
                bump(res, "faults_inside_flush_recorded")
    finally:
        DeferredFileWriter()._tmpdir = None
        if tmpd:
            shutil.rmtree(tmpd, ignore_errors=True)
        reset_state()
    return res
