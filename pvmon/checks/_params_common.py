"""Shared driver for the gen_params family (C01, C02, C10, C11, C13, C14):
run the real program on a generated case, read the written file with the independent
reader, compute the reference expectation and classify every difference."""
import os
from collections import Counter
from pathlib import Path

from ..gen import paramcase
from ..monitors import pipeline
from ..oracle import itp_min, refparams


def setup():
    pipeline.attach_gen_params()


def run_case_files(case, workdir, name="POLY", graph_file="case.json", mods=None, out="out.itp"):
    kwargs = dict(name=name, outpath=Path(workdir) / out, inpath=[Path(workdir) / p for p in case["inpath"]],
                  lib=None, seq=None, seq_file=Path(workdir) / graph_file)
    if mods:
        kwargs["mods"] = mods
    return pipeline.run_gen_params(**kwargs)


def expected_sections(ref, drop_generated_excl=True):
    return {sec: +cnt for sec, cnt in ref["inter"].items() if cnt}


def compare(case, ref, obs):
    """returns dict of difference lists; every entry = (clause key, human message, witness)"""
    diffs = {"atoms": [], "block_inter": [], "link_inter": [], "excl": [], "nrexcl": []}
    exp_atoms = [a for a in ref["atoms"] if a["idx"] not in ref["removed"]]
    # renumber after removal
    renum = {a["idx"]: i + 1 for i, a in enumerate(exp_atoms)}
    if len(exp_atoms) != len(obs["atoms"]):
        diffs["atoms"].append(("atom-count", "expected %d atoms, file has %d" % (len(exp_atoms), len(obs["atoms"])), None))
    cg_shift = {}
    for ea, oa in zip(exp_atoms, obs["atoms"]):
        rep = ref["replaced"].get(ea["idx"], {})
        want = {"name": ea["name"], "atype": rep.get("atype", ea["atype"]), "resid": ea["resid"],
                "resname": ea["resname"], "charge": rep.get("charge", ea["charge"]), "mass": rep.get("mass", ea["mass"])}
        for k, v in want.items():
            got = oa[k]
            same = (abs(got - v) < 1e-9) if isinstance(v, float) and got is not None else got == v
            if not same:
                diffs["atoms"].append(("atom-" + k, "atom %d (%s of residue %s%d): %s is %r, block says %r" %
                                       (oa["idx"], ea["name"], ea["resname"], ea["resid"], k, got, v), ea["resid"]))
        # charge groups: block value shifted by one constant per block instance
        inst = (ea["block"], ea["idx"] - ea["loc"])
        shift = oa["cg"] - (ea["cg"])
        blockcg = None
        cg_shift.setdefault(inst, set()).add(oa["cg"] - _block_cg(case, ea))
    for inst, shifts in cg_shift.items():
        if len(shifts) > 1:
            diffs["atoms"].append(("atom-charge-group", "charge groups of block instance %r are not the block's "
                                   "charge groups plus one constant: shifts %s" % (inst, sorted(shifts)), None))
    # interactions
    res_of = {renum[a["idx"]]: a["res"] for a in exp_atoms}
    exp = {}
    for sec, cnt in ref["inter"].items():
        c = Counter()
        for (atoms, params, cond), n in cnt.items():
            if all(a in renum for a in atoms):
                c[(refparams.canon_atoms(sec, tuple(renum[a] for a in atoms)), params, cond)] += n
        exp[sec] = c
    link_atomsets = set()
    for (sec, ga, ver) in ref["link_keys"]:
        if all(a in renum for a in ga):
            link_atomsets.add((refparams.file_sec(sec), refparams.canon_atoms(sec, tuple(renum[a] for a in ga))))
    for sec in sorted(set(exp) | set(obs["inter"])):
        if sec == "exclusions" or sec in obs.get("raw", {}):
            continue          # rows of a layout the reader has no rule for are not judged
        e = exp.get(sec, Counter())
        o = obs["inter"].get(sec, Counter())
        for key in set(e) | set(o):
            if e[key] == o[key]:
                continue
            atoms = key[0]
            inter_res = len({res_of.get(a) for a in atoms}) > 1
            is_link = inter_res or (sec, atoms) in link_atomsets
            kind = "link_inter" if is_link else "block_inter"
            what = "missing" if e[key] > o[key] else "unexpected"
            diffs[kind].append(("%s-%s" % (kind.replace("_", "-"), what),
                                "[%s] %s atoms=%s params=%s cond=%s expected x%d, file has x%d" %
                                (sec, what, atoms, key[1], key[2], e[key], o[key]), None))
    return diffs, renum


def _block_cg(case, ea):
    for b in case["spec"]["blocks"]:
        if b["name"] == ea["block"]:
            return b["atoms"][ea["loc"]]["cg"]
    raise KeyError(ea["block"])


def exclusion_diffs(ref, obs, renum):
    """C14 recount: excluded(i,j) <=> dist <= max(excl_i, excl_j) or explicit"""
    out = []
    explicit = set()
    for (atoms, params, cond), n in ref["inter"].get("exclusions", {}).items():
        if all(a in renum for a in atoms):
            for o in atoms[1:]:
                explicit.add(frozenset((renum[atoms[0]], renum[o])))
    # all-pairs BFS on the bond graph: written bonds + constraints, plus the bond edges that the
    # reference says applicable links create (C02 calls them bond edges; e.g. angle-only links)
    adj = {}
    for sec in ("bonds", "constraints"):
        for (atoms, _p, _c) in obs["inter"].get(sec, {}):
            a, b = atoms
            adj.setdefault(a, set()).add(b)
            adj.setdefault(b, set()).add(a)
    for e in ref["edges"]:
        a, b = tuple(e)
        if a in renum and b in renum:
            adj.setdefault(renum[a], set()).add(renum[b])
            adj.setdefault(renum[b], set()).add(renum[a])
    inv = {v: k for k, v in renum.items()}
    n = len(obs["atoms"])
    nrexcl = obs["nrexcl"]
    maxd = max(ref["nrexcls"] + [nrexcl])
    from collections import deque
    for i in range(1, n + 1):
        dist = {i: 0}
        q = deque([i])
        while q:
            u = q.popleft()
            if dist[u] >= maxd:
                continue
            for v in adj.get(u, ()):
                if v not in dist:
                    dist[v] = dist[u] + 1
                    q.append(v)
        for j in range(i + 1, n + 1):
            d = dist.get(j)
            pair = frozenset((i, j))
            eff = (d is not None and d <= nrexcl) or pair in obs["excl_pairs"]
            want_d = max(ref["excl_of"][inv[i]], ref["excl_of"][inv[j]])
            want = (d is not None and d <= want_d) or pair in explicit
            if eff != want:
                out.append(("exclusion-%s" % ("missing" if want else "invented"),
                            "atoms %d,%d at bond distance %s: excluded=%s but block exclusion distances (%d,%d) and "
                            "explicit=%s require %s (written nrexcl %d)" %
                            (i, j, d, eff, ref["excl_of"][inv[i]], ref["excl_of"][inv[j]], pair in explicit, want, nrexcl),
                            None))
    return out


# ----------------------------------------------------------------------------- one-stop evaluation
def evaluate(case, workdir, **kw):
    """write the case, run the real gen_params, read the file back and compare with the reference.
    returns dict(run, ref, obs, diffs, renum, excl, missing_ref)  (ref None => outside the reference language)"""
    paramcase.write_case(case, workdir)
    out = os.path.join(workdir, kw.get("out", "out.itp"))
    if os.path.exists(out):
        os.remove(out)
    try:
        ref = refparams.reference(case["spec"], case["graph"])
    except refparams.Unsupported:
        ref = None
    run = run_case_files(case, workdir, **kw)
    res = {"run": run, "ref": ref, "obs": None, "diffs": None, "renum": None, "out": out}
    if run["status"] == "ok" and os.path.exists(out):
        res["obs"] = itp_min.read_itp(out)
        if ref is not None:
            res["diffs"], res["renum"] = compare(case, ref, res["obs"])
    return res


def residue_layout_diffs(ref, obs):
    """C01: every residue exactly once, in residue-id order, numbered by its id"""
    out = []
    seq = []
    for a in obs["atoms"]:
        if not seq or seq[-1] != (a["resid"], a["resname"]):
            seq.append((a["resid"], a["resname"]))
    resids = [r for r, _ in seq]
    if resids != sorted(resids) or len(set(resids)) != len(resids):
        out.append(("residue-order", "residues are not laid out once each in residue-id order: %s" % (seq,), None))
    want = []
    for a in ref["atoms"]:
        if a["idx"] in ref["removed"]:
            continue
        if not want or want[-1] != (a["resid"], a["resname"]):
            want.append((a["resid"], a["resname"]))
    if seq != want:
        out.append(("residue-sequence", "file has residues %s, requested graph has %s" % (seq, want), None))
    return out


def witness(case, extra=None):
    w = {"descr": case["descr"], "files": {n: t for n, t in case["files"]},
         "graph": {"nodes": case["graph"]["nodes"], "edges": case["graph"]["edges"]}}
    if extra:
        w.update(extra)
    return w


# ----------------------------------------------------------------------------- library stratum
LIBRARIES = ["2016H66", "gromos53A6", "ibi_cgm3", "martini2", "martini3", "martini3", "2016H66", "martini3_beta",
             "oplsaaLigParGen", "parmbsc1"]
_LIBCACHE = {}


def library(lib):
    """(converted definitions, co-occurrence groups) of one library force field, as polyply parses it"""
    if lib not in _LIBCACHE:
        from polyply.src.load_library import load_ff_library
        from ..oracle import fromvermouth
        conv = fromvermouth.convert_force_field(load_ff_library("pvmon", [lib], []))
        groups = []
        for _c, _why, names in conv["links"]:
            if names:
                g = sorted(n for n in names if isinstance(conv["blocks"].get(n), dict))
                if g and g not in groups:
                    groups.append(g)
        if not groups:
            groups = [sorted(n for n, b in conv["blocks"].items() if isinstance(b, dict))]
        _LIBCACHE[lib] = (conv, groups)
    return _LIBCACHE[lib]


def build_library_case(rng, nmin=2, nmax=7, lib=None, prefer=None):
    """a residue graph over the blocks of one library force field; the definitions are the parsed library"""
    from ..gen import resgraph as RG
    lib = lib or rng.choice(LIBRARIES)
    conv, groups = library(lib)
    names = set(rng.choice(groups))
    if rng.random() < 0.35:
        names |= set(rng.choice(groups))
    if prefer:
        names = {n for n, b in conv["blocks"].items() if n in prefer and isinstance(b, dict)} or names
    names = rng.sample(sorted(names), min(len(names), rng.randint(1, 3)))
    graph = RG.gen_graph(rng, names, nmin=nmin, nmax=nmax, kinds=("lin", "lin", "lin", "tree", "ring"))
    if lib == "2016H66":
        for n in graph["nodes"]:
            if rng.random() < 0.6:
                n["chiral"] = rng.choice(["R", "S"])
    used = {n["resname"] for n in graph["nodes"]}
    skipped = []
    links = []
    for c, why, lnames in conv["links"]:
        if c is None:
            if lnames is None or lnames & used:
                skipped.append(why)
            continue
        links.append(c)
    spec = {"blocks": [conv["blocks"][n] for n in sorted(used)], "links": links}
    return {"spec": spec, "graph": graph, "files": [], "inpath": [], "layout": "library:" + lib, "lib": lib,
            "unsupported_links": skipped,
            "descr": {"library": lib, "graph": RG.describe(graph),
                      "residue_attributes": {n["key"]: n["chiral"] for n in graph["nodes"] if "chiral" in n}}}


def evaluate_library(case, workdir, out="out.itp"):
    """like evaluate(), the definitions coming from polyply's library (lib=[name])"""
    from ..gen import resgraph as RG
    RG.to_json(case["graph"], os.path.join(workdir, "case.json"))
    outp = os.path.join(workdir, out)
    if os.path.exists(outp):
        os.remove(outp)
    ref = None
    if not case["unsupported_links"]:
        try:
            ref = refparams.reference(case["spec"], case["graph"])
        except refparams.Unsupported:
            ref = None
    if ref is not None:
        _apply_default_termini(case, ref)
    run = pipeline.run_gen_params(name="POLY", outpath=Path(outp), inpath=[], lib=[case["lib"]], seq=None,
                                  seq_file=Path(workdir) / "case.json")
    res = {"run": run, "ref": ref, "obs": None, "diffs": None, "renum": None, "out": outp}
    if run["status"] == "ok" and os.path.exists(outp):
        res["obs"] = itp_min.read_itp(outp)
        if ref is not None:
            res["diffs"], res["renum"] = compare(case, ref, res["obs"])
    return res


PROTEIN = set("GLY|ALA|CYS|VAL|LEU|ILE|MET|PRO|HYP|ASN|GLN|ASP|ASP0|GLU|GLU0|THR|SER|LYS|LYS0|ARG|ARG0|HIS|HISH|PHE|TYR|"
              "TRP".split("|"))


def default_termini(case):
    """residue ids that gen_params modifies without being asked (first and last residue of an amino-acid chain)"""
    nodes = sorted(case["graph"]["nodes"], key=lambda n: n["resid"])
    return {n["resid"] for n in (nodes[0], nodes[-1]) if n["resname"] in PROTEIN}


def _apply_default_termini(case, ref):
    """C01: 'a terminal modification may differ' - without -mods the first and the last residue of an amino-acid chain
    get the library's N-ter and C-ter modification: the attributes they name on the atoms they name"""
    mods = library(case["lib"])[0]["mods"]
    if not mods:
        return
    nodes = sorted(case["graph"]["nodes"], key=lambda n: n["resid"])
    for node, mname in ((nodes[0], "N-ter"), (nodes[-1], "C-ter")):
        if node["resname"] not in PROTEIN or mname not in mods:
            continue
        if mods[mname]["interactions"]:
            raise refparams.Unsupported("terminal modification with interactions")
        for a in ref["atoms"]:
            if a["res"] == node["key"] and a["name"] in mods[mname]["atoms"]:
                ref["replaced"].setdefault(a["idx"], {}).update(mods[mname]["atoms"][a["name"]])
                ref.setdefault("termini_atoms", set()).add(a["idx"])
