"""C02 - links are applied exactly where their definition matches."""
from ..core import new_result, bump, violation, sig_of, note
from ..gen import paramcase
from . import _params_common as PC

PID = "C02"
LEVEL = "exploration"
RULE = ("seeded link definitions (numeric +n/-n, >/<, * orders; resname strings and choices, link-wide or per atom; "
        "extra atype constraints; replace and atom removal; explicit [edges] with linktype labels, {edge:false}; "
        "[non-edges]; [patterns]; versions; 2-4 residues; dangling .itp interactions) x residue graphs (linear/tree/"
        "ring with chords, labelled edges, ids from any start) through the real gen_params; and residue graphs over the "
        "blocks of the force fields shipped with polyply (-lib), the parsed definitions translated for the same reference "
        "(residue attributes such as chiral included); expectation by brute-force "
        "enumeration of injective residue assignments (pvmon.oracle.refparams). non-trivial = at least one link match "
        "expected or observed; distinct = hash of (files, graph)"
        ' Later strata: the shipped libraries as parsed (pvmon.oracle.fromvermouth), node keys not numbered like residue ids, partial per-atom residue names, blocks sharing atom names, links replacing atom types.')
ASSUMPTIONS = ["non-edge anchors are atoms of the reference residue (order 0) and never name atoms of their own link",
               "a link atom is identified by the attributes the atom had when its block was copied (an atom type replaced by an earlier link is not seen by later links; [patterns] do see it)",
               "'same atoms' for the overwrite rule = same ordered atom tuple and version",
               "explicit version tags only in pure .ff force fields (an .itp finalisation rewrites them)"]
CASE_TIMEOUT = 60
WALL = {"quick": 900, "thorough": 7200}
REQUIRED = {"link_matches_expected": 300, "rej_order": 100, "rej_induced": 100, "rej_resname": 50, "rej_linktype": 10,
            "rej_nonedge": 3, "rej_pattern": 5, "overrides": 5, "dangling_matches": 20, "removals": 3,
            "replacements": 5, "inter_residue_edges_checked": 200, "library_link_matches": 2000, "libraries": 6, "node_keys_not_like_residue_ids": 500, "cases_with_type_replacing_links": 300, "dangling_windows_that_skip_a_residue": 100, "links_with_an_edge_between_atoms_no_interaction_names": 15}
LINK_OPTS = {"p_remove": 0.12, "p_nonedge": 0.25, "p_pattern": 0.2, "linktypes": True, "p_edge": 0.25, "p_edge_only_atoms": 0.35,
             "nres": [2, 2, 2, 3, 3, 4], "p_replace": 0.2, "p_version": 0.15, "p_attr": 0.2, "p_partial_resname": 0.2}


def plan(tier, seed):
    n = 4000 if tier == "quick" else 40000
    return [["links", i] for i in range(n)] + [["dangling", i] for i in range(n // 4)] + \
        [["library", i] for i in range(n // 5)] + [["dangling_skip", i] for i in range(n // 40)]


def setup():
    PC.setup()


def run_dangling_skip(cid, rng, workdir, res):
    """a dangling pair interaction of a monomer .itp that reaches the residue after the next one (as the 1-3 / 1-4
    exclusions of martini2 PE): by the statement it is present for every window of three consecutive residues"""
    import os
    from ..gen import ff as FF
    case = paramcase.build(rng, profile="sensible", layouts=["itp_dangling"], nmin=4, nmax=8, p_shared_names=0.0,
                           p_resnr_offset=0.0)
    blocks = [b for b in case["spec"]["blocks"] if not b["multi"] and b["syntax"] == "itp"]
    b = rng.choice(blocks)
    na = len(b["atoms"])
    x, y = rng.randrange(na), 2 * na + rng.randrange(na)
    params = ["1", "%.3f" % rng.uniform(0.2, 0.5), "%.3f" % rng.uniform(0.5, 3.0)]
    b["inter"].append({"sec": "pairs", "atoms": [x, y], "params": params, "meta": {}})
    itp_blocks = [bb for bb in case["spec"]["blocks"] if bb["syntax"] == "itp"]
    case["files"] = [(n_, "\n".join(FF.render_blocks_itp(itp_blocks)) + "\n" if n_.endswith(".itp") else t_) for n_, t_ in case["files"]]
    # a linear chain of that residue only
    n = rng.randint(3, 8)
    start = rng.choice([1, 1, 4])
    case["graph"] = {"kind": "lin", "nodes": [{"key": i, "resname": b["name"], "resid": start + i} for i in range(n)],
                     "edges": [(i, i + 1, None) for i in range(n - 1)]}
    paramcase.write_case(case, workdir)
    run = PC.run_case_files(case, workdir)
    res["sig"] = sig_of([case["files"], case["graph"]])
    res["sample"] = {"block": b["name"], "atoms_per_residue": na, "pair": [x + 1, y + 1], "residues": n}
    res["nontrivial"] = True
    if run["status"] != "ok":
        res["status"] = "rejected"
        violation(res, "rejects-valid-input:%s" % run.get("exc_type"), "gen_params raised %s" % run["error"], PC.witness(case))
        return res
    from ..oracle import itp_min
    obs = itp_min.read_itp(os.path.join(workdir, "out.itp"))
    want = {(i * na + x + 1, (i + 2) * na + (y - 2 * na) + 1) for i in range(n - 2)}
    got = {tuple(sorted(a)) for (a, p_, _c) in obs["inter"].get("pairs", {}) if tuple(p_) == tuple(params)}
    bump(res, "dangling_windows_that_skip_a_residue", len(want))
    if {tuple(sorted(w_)) for w_ in want} != got:
        violation(res, "dangling-interaction-that-skips-a-residue-not-applied", "the monomer's pair %d-%d (own residue and the "
                  "residue after the next one) is written for %d of the %d windows of three consecutive residues" %
                  (x + 1, y + 1, len(got), len(want)), PC.witness(case))
    return res


def run_case(cid, rng, workdir):
    res = new_result()
    if cid[0] == "dangling_skip":
        return run_dangling_skip(cid, rng, workdir, res)
    if cid[0] == "library":
        # the force fields shipped with polyply, as polyply parses them, against the same reference
        case = PC.build_library_case(rng)
        ev = PC.evaluate_library(case, workdir)
        if case["unsupported_links"]:
            bump(res, "library_cases_with_links_outside_the_reference")
    else:
        if cid[0] == "dangling":
            case = paramcase.build(rng, profile="full", layouts=["itp_dangling"], nmin=2, nmax=8)
        else:
            lo = LINK_OPTS
            if rng.random() < 0.15:
                # links that replace an atom type next to links that select atoms by type (no patterns here: those look
                # at the current attributes and would make the outcome depend on the order of the matches)
                lo = dict(LINK_OPTS, p_pattern=0.0, replace_atype=True, p_attr=0.6, p_replace=0.6)
                bump(res, "cases_with_type_replacing_links")
            case = paramcase.build(rng, profile="full", link_opts=lo, max_links=5, nmin=2, nmax=7,
                                   layouts=["ff", "ff", "ff+itp", "itp+ff", "multi"], p_shared_names=0.3)
        if rng.random() < 0.3:
            # node keys that are not numbered like the residue ids: 'relative residue order' is about ids
            from .C13 import relabel
            case["graph"], _mode = relabel(rng, case["graph"])
            bump(res, "node_keys_not_like_residue_ids")
        if any(l.get("edge_only_atoms") for l in case["spec"]["links"]):
            bump(res, "links_with_an_edge_between_atoms_no_interaction_names")
        ev = PC.evaluate(case, workdir)
    res["sig"] = sig_of([case["files"], case["graph"]])
    res["sample"] = case["descr"]
    if ev["ref"] is None:
        res["status"] = "rejected"
        return res
    if ev["run"]["status"] != "ok":
        res["status"] = "rejected"
        violation(res, "rejects-valid-input:%s" % ev["run"].get("exc_type"),
                  "gen_params raised %s" % ev["run"]["error"], PC.witness(case))
        return res
    ref, obs = ev["ref"], ev["obs"]
    st = ref["stats"]
    bump(res, "link_matches_expected", st.get("matches", 0))
    if cid[0] == "dangling":
        bump(res, "dangling_matches", st.get("matches", 0))
    if cid[0] == "library":
        bump(res, "library_link_matches", st.get("matches", 0))
        note(res, "libraries", case["lib"])
        note(res, "library_residues", [case["lib"]] + sorted({n["resname"] for n in case["graph"]["nodes"]}))
    for k in ("rej_order", "rej_induced", "rej_resname", "rej_linktype", "rej_nonedge", "rej_pattern",
              "rej_atom_none", "rej_atom_ambiguous", "overrides"):
        bump(res, k, st.get(k, 0))
    bump(res, "removals", len(ref["removed"]))
    bump(res, "replacements", len(ref["replaced"]))
    n_link_obs = 0
    res_of = {}
    for a in obs["atoms"]:
        res_of[a["idx"]] = a["resid"]
    for sec, cnt in obs["inter"].items():
        for (atoms, _p, _c), n in cnt.items():
            if len({res_of.get(x) for x in atoms}) > 1:
                n_link_obs += n
    bump(res, "inter_residue_interactions_observed", n_link_obs)
    res["nontrivial"] = bool(st.get("matches", 0) or n_link_obs)
    note(res, "layouts", case["layout"])
    w = None
    for key, msg, _ in ev["diffs"]["link_inter"]:
        w = w or PC.witness(case)
        violation(res, key, msg, w)
    # replacements / removals are link effects: atoms table
    termini = PC.default_termini(case) if cid[0] == "library" else set()
    for key, msg, resid in ev["diffs"]["atoms"]:
        if resid in termini and key in ("atom-charge", "atom-mass", "atom-atype"):
            bump(res, "atoms_of_default_termini_left_to_C01")
            continue
        if key in ("atom-charge", "atom-mass", "atom-atype", "atom-count", "atom-name"):
            w = w or PC.witness(case)
            violation(res, "link-replace:" + key, msg, w)
    # bond edges of the captured molecule after ApplyLinks (inter-residue only)
    stage = ev["run"]["stages"].get("links")
    if stage and "edges" in stage:
        renum = ev["renum"]
        rres = {renum[a["idx"]]: a["res"] for a in ref["atoms"] if a["idx"] in renum}
        exp_e = set()
        for e in ref["edges"]:
            x, y = tuple(e)
            if x in renum and y in renum and rres[renum[x]] != rres[renum[y]]:
                exp_e.add(frozenset((renum[x], renum[y])))
        got_e = {e for e in stage["edges"] if len(e) == 2 and len({rres.get(x) for x in e}) > 1}
        bump(res, "inter_residue_edges_checked", len(exp_e | got_e))
        if exp_e != got_e:
            w = w or PC.witness(case)
            missing, extra = sorted(map(sorted, exp_e - got_e)), sorted(map(sorted, got_e - exp_e))
            violation(res, "link-edge-%s" % ("missing" if missing else "unexpected"),
                      "inter-residue bond edges after link application differ: missing %s unexpected %s" %
                      (missing, extra), w)
    return res
