"""C14 - mixed exclusion distances are honoured atom by atom."""
from ..core import new_result, bump, violation, sig_of, note
from ..gen import paramcase
from . import _params_common as PC

PID = "C14"
LEVEL = "exploration"
RULE = ("seeded polymers from blocks with exclusion distances 0..3 (uniform in ~half of the cases, mixed otherwise; "
        "chains, trees, rings incl. short rings; link-made bonds incl. angle/dihedral-only links; explicit block "
        "exclusions) through the real gen_params; all-pairs recount on the written file: excluded(i,j) <=> "
        "dist(i,j) <= max(excl_i, excl_j) or explicit. non-trivial = case with >= 2 distinct block exclusion "
        "distances among its residues; distinct = hash of (files, graph)"
        ' Later stratum: sequences over the shipped libraries (multi-atom exclusion rows, exclusions defined by links).')
ASSUMPTIONS = ["bond graph = written bonds + constraints + bond edges of the applicable links (C02 reference)",
               "block-internal angles/dihedrals only along bonded paths (so that every parser builds the same bond graph)"]
CASE_TIMEOUT = 60
WALL = {"quick": 900, "thorough": 7200}
REQUIRED = {"pairs_checked": 20000, "mixed_cases": 150, "uniform_cases": 150, "generated_exclusions_seen": 200,
            "explicit_block_exclusions": 20, "three_level_cases": 80, "explicit_atom_id_links": 60, "library_cases": 100, "multi_partner_exclusion_rows": 100, "cases_with_removed_atoms": 30}


def plan(tier, seed):
    n = 4000 if tier == "quick" else 50000
    return [["excl", i] for i in range(n)] + [["library", i] for i in range(n // 8)]


def setup():
    PC.setup()


def run_case(cid, rng, workdir):
    res = new_result()
    if cid[0] == "library":
        return run_library(cid, rng, workdir, res)
    case = paramcase.build(rng, profile="sensible", nmin=2, nmax=7, max_links=4, three_levels=True, p_uniform=0.3,
                           link_opts={"p_remove": 0.1},
                           p_explicit=0.25, layouts=["ff", "ff", "ff+itp", "itp+ff", "itp_dangling"])
    # explicit exclusions inside .ff blocks (pure .ff layouts only: an .itp finalisation would turn them into edges)
    if case["layout"] == "ff" and rng.random() < 0.4:
        _add_block_exclusions(rng, case)
    if rng.random() < 0.3:
        from .C13 import relabel
        case["graph"], _mode = relabel(rng, case["graph"])
        if _mode == "str":
            case["graph"], _mode = relabel(rng, case["graph"]) if False else (case["graph"], _mode)
        bump(res, "relabelled_node_keys")
    ev = PC.evaluate(case, workdir)
    res["sig"] = sig_of([case["files"], case["graph"]])
    res["sample"] = case["descr"]
    if ev["ref"] is None:
        res["status"] = "rejected"
        return res
    if ev["run"]["status"] != "ok":
        res["status"] = "rejected"
        violation(res, "rejects-valid-input:%s" % ev["run"].get("exc_type"), "gen_params raised %s" % ev["run"]["error"],
                  PC.witness(case))
        return res
    return judge(case, ev, res)


def run_library(cid, rng, workdir, res):
    """shipped libraries: multi-atom exclusion rows, exclusions defined by links, virtual sites; mostly one distance"""
    case = PC.build_library_case(rng)
    ev = PC.evaluate_library(case, workdir)
    res["sig"] = sig_of([case["lib"], case["graph"]])
    res["sample"] = case["descr"]
    if ev["ref"] is None or ev["run"]["status"] != "ok":
        res["status"] = "rejected"
        return res
    bump(res, "library_cases")
    note(res, "libraries", case["lib"])
    return judge(case, ev, res)


def judge(case, ev, res):
    ref, obs = ev["ref"], ev["obs"]
    used = sorted({ref["excl_of"][a["idx"]] for a in ref["atoms"]})
    mixed = len(used) > 1
    res["nontrivial"] = mixed
    bump(res, "mixed_cases" if mixed else "uniform_cases")
    n = len(obs["atoms"])
    bump(res, "pairs_checked", n * (n - 1) // 2)
    explicit = sum(cnt for cnt in ref["inter"].get("exclusions", {}).values())
    bump(res, "explicit_block_exclusions", explicit)
    bump(res, "generated_exclusions_seen", max(0, len(obs["excl_pairs"]) - explicit))
    bump(res, "explicit_atom_id_links", ref["stats"].get("explicit_links", 0))
    bump(res, "multi_partner_exclusion_rows", case["descr"].get("multi_partner_exclusion_rows", 0))
    bump(res, "cases_with_removed_atoms", 1 if ref["removed"] else 0)
    if len(used) >= 3:
        bump(res, "three_level_cases")
    note(res, "nrexcl_sets", used)
    w = None
    for key, msg, _ in PC.exclusion_diffs(ref, obs, ev["renum"])[:3]:
        w = w or PC.witness(case)
        violation(res, key + (":mixed" if mixed else ":uniform"), msg, w)
    if not mixed:
        if obs["nrexcl"] != used[0]:
            violation(res, "uniform-nrexcl-changed", "all blocks prescribe %d but the molecule has nrexcl %d" %
                      (used[0], obs["nrexcl"]), w or PC.witness(case))
    return res


def _add_block_exclusions(rng, case):
    from ..gen import ff as FF
    for b in case["spec"]["blocks"]:
        if b["syntax"] == "ff" and len(b["atoms"]) >= 3 and rng.random() < 0.6:
            # one atom excluded from one, two or three others (a row 'B1 B4 B5 B6' excludes B1 from each of them,
            # not the others from one another)
            k = rng.randint(2, min(4, len(b["atoms"])))
            b["inter"].append({"sec": "exclusions", "atoms": rng.sample(range(len(b["atoms"])), k), "params": [], "meta": {}})
            if k > 2:
                case["descr"]["multi_partner_exclusion_rows"] = case["descr"].get("multi_partner_exclusion_rows", 0) + 1
    blocks = case["spec"]["blocks"]
    case["files"] = [("case.ff", "\n".join(FF.render_blocks_ff(blocks) + FF.render_links_ff(case["ff_links"])) + "\n" +
                      case.get("ff_extra", ""))]
