"""C01 - every residue is a verbatim, re-indexed copy of its force-field block."""
import copy

from ..core import new_result, bump, violation, sig_of, note
from ..gen import paramcase
from . import _params_common as PC

PID = "C01"
LEVEL = "exploration"
RULE = ("seeded force fields (.ff / polyply .itp blocks, 1-5 atoms, bonds/constraints/angles/dihedrals/impropers/"
        "pairs/exclusions/position_restraints, #ifdef meta, version-tagged multi-term dihedrals, multi-residue "
        "from_itp blocks) x residue graphs (linear/tree/ring, contiguous ids from 1,2,5,17) run through the real "
        "gen_params, and residue graphs over the blocks of the shipped libraries (-lib) with their default protein termini; "
        "expectation computed from the abstract spec by pvmon.oracle.refparams. non-trivial = accepted "
        "case with >= 2 residues; distinct = hash of (files, graph)"
        ' Later strata: blocks of the shipped libraries with default protein termini; gen_params -dsdna on strands whose ids do not start at 1; blocks whose residue-number column starts at 2-7; molecules that begin with a multi-residue fragment; blocks sharing atom names; every block exclusion must survive the generated ones.')
ASSUMPTIONS = ["charge groups compared up to one constant per block instance",
               "interactions compared up to reversal of the atom tuple (writer canonicalisation)",
               "blocks that repeat the same atoms in one section without version tags live in their own stratum (F15)",
               "vermouth .ff/.itp parsers and the itp writer are inside the checked path"]
CASE_TIMEOUT = 60
WALL = {"quick": 900, "thorough": 7200}
REQUIRED = {"residues_checked": 200, "block_interactions_checked": 200, "multi_residue_cases": 5,
            "offset_cases": 20, "mods_cases": 5, "modification_interactions_checked": 20, "mods_cases_with_residues_from_an_itp_molecule": 10, "library_cases": 100, "default_termini_atoms": 10, "dsdna_cases": 50,
            "dsdna_cases_ids_not_from_one": 15}


def plan(tier, seed):
    n = 3600 if tier == "quick" else 30000
    cids = [["main", i] for i in range(n)]
    cids += [["mods", i] for i in range(n // 12)]
    cids += [["dup", i] for i in range(n // 20)]
    cids += [["alias", i] for i in range(n // 10)]
    cids += [["library", i] for i in range(n // 8)]
    cids += [["dsdna", i] for i in range(n // 30)]
    return cids


def setup():
    PC.setup()


def run_case(cid, rng, workdir):
    res = new_result()
    stratum = cid[0]
    if stratum == "mods":
        return run_mods(cid, rng, workdir, res)
    if stratum == "dsdna":
        return run_dsdna(cid, rng, workdir, res)
    kw = {"link_opts": {"p_remove": 0.08, "p_replace": 0.15}, "p_resnr_offset": 0.15}      # links that remove / retag atoms are part of the quantifier
    if stratum == "dup":
        kw = {"layouts": ["ff", "itp+ff"]}
    if stratum == "alias":
        kw = {"layouts": ["ff", "itp+ff", "ff+itp"], "max_links": 0}
    if stratum == "library":
        # blocks of the force fields shipped with polyply (virtual sites, multi-atom exclusions, restraints, default
        # protein termini), the parsed definitions translated for the same reference
        if rng.random() < 0.25:
            case = PC.build_library_case(rng, nmin=1, lib="martini3", prefer=PC.PROTEIN)
        else:
            case = PC.build_library_case(rng, nmin=1)
        ev = PC.evaluate_library(case, workdir)
        note(res, "libraries", case["lib"])
        bump(res, "library_cases")
        if ev["ref"] is not None:
            bump(res, "default_termini_atoms", len(ev["ref"].get("termini_atoms", ())))
    else:
        case = paramcase.build(rng, profile="full", **kw)
        if stratum == "alias":
            _alias(rng, case)
        if stratum == "dup":
            if not _add_duplicates(rng, case):
                res["status"] = "rejected"
                return res
        ev = PC.evaluate(case, workdir)
    res["sig"] = sig_of([case["files"], case["graph"], case.get("lib")])
    res["sample"] = case["descr"]
    if ev["ref"] is None:
        res["status"] = "rejected"
        bump(res, "outside_reference_language")
        return res
    if ev["run"]["status"] != "ok":
        # the property is conditional on acceptance; rejections of inputs the quantifier names are reported
        res["status"] = "rejected"
        bump(res, "rejected_by_gen_params")
        violation(res, "rejects-valid-input:%s" % ev["run"].get("exc_type"),
                  "gen_params raised %s on a force field / residue graph of the quantified class" % ev["run"]["error"],
                  PC.witness(case))
        return res
    ref, obs = ev["ref"], ev["obs"]
    nres = len(case["graph"]["nodes"])
    res["nontrivial"] = nres >= 2
    bump(res, "residues_checked", nres)
    bump(res, "atoms_checked", len(obs["atoms"]))
    bump(res, "block_interactions_checked", sum(sum(c.values()) for c in ref["inter"].values()))
    if any(n.get("from_itp") for n in case["graph"]["nodes"]):
        bump(res, "multi_residue_cases")
    if case["graph"]["nodes"][0]["resid"] != 1:
        bump(res, "offset_cases")
    bump(res, "link_overrides_of_block_terms", ref["stats"].get("overrides", 0))
    note(res, "layouts", case["layout"])
    suffix = ":untagged-duplicates" if stratum == "dup" else ""
    for key, msg, _w in PC.residue_layout_diffs(ref, obs) + ev["diffs"]["atoms"] + ev["diffs"]["block_inter"]:
        if key.startswith("atom-") and _is_replace_artifact(key, msg, ref):
            continue
        violation(res, key + suffix, msg, PC.witness(case))
    # exclusions written inside a block: the generated ones are added to them, they never replace them
    renum = ev["renum"]
    for (atoms, _params, _cond), cnt in ref["inter"].get("exclusions", {}).items():
        if not all(a in renum for a in atoms):
            continue
        bump(res, "block_exclusions_checked")
        for o in atoms[1:]:
            pair = frozenset((renum[atoms[0]], renum[o]))
            if len(pair) == 2 and pair not in obs["excl_pairs"]:
                violation(res, "block-exclusion-lost" + suffix, "the exclusion of atoms %s defined in a block is not in the "
                          "written [ exclusions ]" % sorted(pair), PC.witness(case))
    return res


def _alias(rng, case):
    """blocks whose atoms carry a residue name other than the block name (e.g. block PEO, atoms EO) and
    residue-graph nodes with free-form labels (gen_seq -label) that are not part of any block"""
    from ..gen import ff as FF
    for b in case["spec"]["blocks"]:
        if not b["multi"] and rng.random() < 0.6:
            for a in b["atoms"]:
                a["resname"] = b["name"][:1] + "x" + b["name"][1:]
    ff_blocks = [x for x in case["spec"]["blocks"] if x["syntax"] == "ff"]
    itp_blocks = [x for x in case["spec"]["blocks"] if x["syntax"] == "itp"]
    files = []
    for name, _ in case["files"]:
        if name == "case.ff":
            files.append((name, "\n".join(FF.render_blocks_ff(ff_blocks)) + "\n"))
        else:
            files.append((name, "\n".join(FF.render_blocks_itp(itp_blocks)) + "\n"))
    case["files"] = files
    for n in case["graph"]["nodes"]:
        if rng.random() < 0.4:
            n[rng.choice(["tag", "chiral", "charge", "mass", "atype"])] = rng.choice([7.5, "R", 3])
    case["descr"]["alias"] = True


def _is_replace_artifact(key, msg, ref):
    return False


def _add_duplicates(rng, case):
    """F15 stratum: a block with >= 2 interactions on the same ordered atoms, no version tags"""
    cands = [b for b in case["spec"]["blocks"] if not b["multi"] and len(b["atoms"]) >= 2]
    if not cands:
        return False
    b = rng.choice(cands)
    from ..gen import ff as FF
    pool = [it for it in b["inter"] if it["sec"] in ("bonds", "dihedrals", "angles") and "version" not in it["meta"]]
    if not pool:
        return False
    it = rng.choice(pool)
    dup = {"sec": it["sec"], "atoms": list(it["atoms"]), "params": FF._params(rng, it["sec"]), "meta": {}}
    more = []
    if rng.random() < 0.5:
        it["meta"] = {"ifdef": "FLEXIBLE"}
        dup["meta"] = {"ifndef": "FLEXIBLE"}
    else:
        # three or four terms on the same atoms (e.g. a multi-term proper dihedral)
        for k in range(rng.randint(0, 2)):
            more.append({"sec": it["sec"], "atoms": list(it["atoms"]), "params": FF._params(rng, it["sec"]), "meta": {}})
    b["inter"].insert(b["inter"].index(it) + 1, dup)
    for k, x in enumerate(more):
        b["inter"].insert(b["inter"].index(dup) + 1 + k, x)
    # re-render the files
    ff_blocks = [x for x in case["spec"]["blocks"] if x["syntax"] == "ff"]
    itp_blocks = [x for x in case["spec"]["blocks"] if x["syntax"] == "itp"]
    files = []
    for name, _ in case["files"]:
        if name == "case.ff":
            files.append((name, "\n".join(FF.render_blocks_ff(ff_blocks) + FF.render_links_ff(case["ff_links"])) + "\n"))
        else:
            files.append((name, "\n".join(FF.render_blocks_itp(itp_blocks)) + "\n"))
    case["files"] = files
    case["descr"]["untagged_duplicate_in"] = b["name"]
    # the reference keeps both terms: give them distinct keys internally
    dup["meta"]["version"] = "dup-b"
    for k, x in enumerate(more):
        x["meta"]["version"] = "dup-%d" % k
    return True


# ----------------------------------------------------------------------------- modifications
MOD_RES = ["GLY", "ALA", "SER"]


def run_mods(cid, rng, workdir, res):
    """differential: the same case with and without -mods; the diff must stay inside the named atoms of the
    target residue (plus the interactions the modification defines among them)."""
    from ..gen import ff as FF
    import os
    blocks = []
    for nm in MOD_RES[:rng.randint(1, 3)]:
        b = FF.gen_block(rng, nm, "ff", max_atoms=4, sections=["angles"], allow_cond=False, nrexcl=1, prefix="B")
        # protein-like: every residue has an atom BB and same-named side chain atoms
        b["atoms"][0]["name"] = "BB"
        for i, a in enumerate(b["atoms"][1:], 1):
            a["name"] = "SC%d" % i
        blocks.append(b)
    names = [b["name"] for b in blocks]
    # a non-protein residue in the chain (never modified, whatever the -mods string calls it)
    lnk = FF.gen_block(rng, "LNK", "ff", max_atoms=3, sections=[], allow_cond=False, nrexcl=1, prefix="B")
    lnk["atoms"][0]["name"] = "BB"
    for i, a in enumerate(lnk["atoms"][1:], 1):
        a["name"] = "SC%d" % i
    use_lnk = rng.random() < 0.4
    if use_lnk:
        blocks.append(lnk)
    allnames = names + (["LNK"] if use_lnk else [])
    link = ["[ link ]", 'resname "%s"' % "|".join(allnames), "[ bonds ]", "BB +BB 1 0.350 1250"]
    # a one-residue link that renames an atom: modifications that name the old atom name must not find it any more
    rename = rng.random() < 0.4
    if rename:
        link += ["[ link ]", 'resname "%s"' % "|".join(allnames), "[ atoms ]", 'SC1 {"replace": {"atomname": "SX"}}',
                 "[ bonds ]", 'BB SC1 1 0.333 777 {"version": 7}']
    mods = []
    mod_defs = {}
    mod_angles = {}
    can_angle = (not rename) and all(len(b["atoms"]) >= 3 for b in blocks if b["name"] in names)
    for mname in ("N-ter", "C-ter", "XMOD"):
        atoms = ["BB"] if rng.random() < 0.6 else ["BB", "SC1"]
        repl = {a: {"atype": rng.choice(["Qd", "Qa", "P9"]), "charge": rng.choice([1.0, -1.0])} for a in atoms}
        mod_defs[mname] = repl
        mods += ["[ modification ]", mname, "[ atoms ]"]
        for a, r in repl.items():
            mods.append('%s {"resname": "%s", "replace": %s}' % (a, "|".join(names), __import__("json").dumps(r)))
        if can_angle and rng.random() < 0.5:
            # the modification also defines an interaction over three of the atoms it names
            for a in ("BB", "SC1", "SC2"):
                if a not in repl:
                    mods.append('%s {"resname": "%s"}' % (a, "|".join(names)))
            mod_angles[mname] = ["1", str(rng.randint(91, 179)), str(rng.randint(11, 99))]
            mods += ["[ angles ]", "BB SC1 SC2 " + " ".join(mod_angles[mname])]
    text = "\n".join(FF.render_blocks_ff(blocks) + link + mods) + "\n"
    n = rng.randint(2, 7)
    start = rng.choice([1, 1, 3, 10])
    from ..gen import resgraph as RG
    graph = {"nodes": [{"key": i, "resname": rng.choice(allnames), "resid": start + i} for i in range(n)],
             "edges": [(i, i + 1, None) for i in range(n - 1)], "kind": "lin"}
    with open(os.path.join(workdir, "m.ff"), "w") as fh:
        fh.write(text)
    case = {"files": [("m.ff", text)], "inpath": ["m.ff"], "graph": graph,
            "descr": {"layout": "mods", "graph": RG.describe(graph)}}
    if n >= 3 and not rename and rng.random() < 0.3:
        # the first two residues come as a finished molecule from an .itp file (from_itp): such residues are copied as
        # they are, terminal and requested modifications leave them alone
        bd_ = {b["name"]: b for b in blocks}
        for nd in graph["nodes"][:2]:
            if nd["resname"] == "LNK":
                nd["resname"] = names[0]
            nd["from_itp"] = "PEP"
        il = ["[ moleculetype ]", "PEP 1", "[ atoms ]"]
        k, firsts, bonds = 1, [], []
        for ri, nd in enumerate(graph["nodes"][:2]):
            firsts.append(k)
            for j, a in enumerate(bd_[nd["resname"]]["atoms"]):
                il.append("%d %s %d %s %s %d %r %r" % (k, a["atype"], ri + 1, nd["resname"], a["name"], k, a["charge"], a["mass"]))
                if j:
                    bonds.append("%d %d 1 0.300 1000" % (firsts[-1], k))
                k += 1
        bonds.append("%d %d 1 0.350 1250" % (firsts[0], firsts[1]))
        itp_text = "\n".join(il + ["[ bonds ]"] + bonds) + "\n"
        with open(os.path.join(workdir, "pep.itp"), "w") as fh:
            fh.write(itp_text)
        case["files"].insert(0, ("pep.itp", itp_text))
        case["inpath"].insert(0, "pep.itp")
        case["descr"]["graph"] = RG.describe(graph)
        bump(res, "mods_cases_with_residues_from_an_itp_molecule")
    RG.to_json(graph, os.path.join(workdir, "m.json"))
    # choose modifications
    target_nodes = rng.sample(range(n), rng.randint(1, min(2, n)))
    modspec = []
    for t in target_nodes:
        nd = graph["nodes"][t]
        mname = rng.choice(sorted(mod_defs))
        typed = nd["resname"] if nd["resname"] != "LNK" or rng.random() < 0.5 else rng.choice(names)
        modspec.append(("%s%d" % (typed, nd["resid"]), mname, nd))
    case["descr"]["mods"] = [(a, b) for a, b, _ in modspec]
    res["sample"] = case["descr"]
    res["sig"] = sig_of([text, graph["nodes"], case["descr"]["mods"]])
    from . import _params_common as PCm
    from ..oracle import itp_min
    runs = {}
    for tag, m in (("with", [(a, b) for a, b, _ in modspec]), ("default", None)):
        out = "out_%s.itp" % tag
        r = PCm.run_case_files(case, workdir, graph_file="m.json", mods=m, out=out)
        if r["status"] != "ok":
            res["status"] = "rejected"
            violation(res, "rejects-valid-input:mods:%s" % r.get("exc_type"),
                      "gen_params (-mods %s) raised %s" % (m, r["error"]), PCm.witness(case))
            return res
        runs[tag] = itp_min.read_itp(os.path.join(workdir, out))
    bump(res, "mods_cases")
    res["nontrivial"] = True
    # expectation: 'default' applies N-ter to the first and C-ter to the last residue; 'with' applies modspec
    bnames = {b["name"]: [a["name"] for a in b["atoms"]] for b in blocks}

    def expect(mlist):
        rep = {}
        for nd, mname in mlist:
            if nd["resname"] == "LNK" or nd.get("from_itp"):
                continue                      # not a protein residue / part of a finished molecule: left alone
            for aname, r in mod_defs[mname].items():
                if rename and aname == "SC1" and "SC1" in bnames[nd["resname"]]:
                    continue                  # that atom is called SX by now
                rep.setdefault((nd["resid"], aname), {}).update(r)
        return rep
    first, last = graph["nodes"][0], graph["nodes"][-1]
    exp = {"with": expect([(nd, mn) for _, mn, nd in modspec]),
           "default": expect([(first, "N-ter"), (last, "C-ter")])}
    bdict = {b["name"]: b for b in blocks}
    # interactions a modification defines: on the atoms it names, in the residue it is applied to, all atoms kept
    applied = {"with": [(nd, mn) for _, mn, nd in modspec], "default": [(first, "N-ter"), (last, "C-ter")]}
    for tag, obs in runs.items():
        idx_of, pos = {}, 0
        for nd in graph["nodes"]:
            for a in bdict[nd["resname"]]["atoms"]:
                pos += 1
                idx_of[(nd["resid"], a["name"])] = pos
        have = {(tuple(ats), tuple(str(x) for x in prm)) for (ats, prm, _c) in obs["inter"].get("angles", {})}
        for nd, mn in applied[tag]:
            if mn in mod_angles and nd["resname"] != "LNK" and not nd.get("from_itp"):
                bump(res, "modification_interactions_checked")
                want_at = tuple(idx_of[(nd["resid"], a)] for a in ("BB", "SC1", "SC2"))
                if not any(ats in (want_at, want_at[::-1]) and list(prm) == mod_angles[mn] for ats, prm in have):
                    near = sorted(x for x in have if x[0][0] in want_at)[:4]
                    violation(res, "modification-interaction-not-on-its-atoms", "[%s run] modification %s on residue %s%d "
                              "defines the angle BB SC1 SC2 = atoms %s with %s; the file has %s" %
                              (tag, mn, nd["resname"], nd["resid"], want_at, mod_angles[mn], near), PCm.witness(case))
    for tag, obs in runs.items():
        pos = 0
        for nd in graph["nodes"]:
            b = bdict[nd["resname"]]
            for a in b["atoms"]:
                if pos >= len(obs["atoms"]):
                    violation(res, "atom-count:mods", "file too short", PCm.witness(case))
                    return res
                oa = obs["atoms"][pos]
                pos += 1
                rep = exp[tag].get((nd["resid"], a["name"]), {})
                want = {"atype": rep.get("atype", a["atype"]), "charge": rep.get("charge", a["charge"]),
                        "mass": a["mass"], "name": "SX" if (rename and a["name"] == "SC1") else a["name"],
                        "resid": nd["resid"], "resname": nd["resname"]}
                bump(res, "mod_atoms_checked")
                if rep:
                    bump(res, "mod_atoms_modified")
                for k, v in want.items():
                    got = oa[k]
                    same = abs(got - v) < 1e-9 if isinstance(v, float) else got == v
                    if not same:
                        inside = bool(rep)
                        violation(res, "modification-%s" % ("wrong-value" if inside else "touches-unnamed-atom"),
                                  "[%s run] atom %s of residue %s%d: %s is %r, expected %r (modifications %s)" %
                                  (tag, a["name"], nd["resname"], nd["resid"], k, got, v, case["descr"]["mods"]),
                                  PCm.witness(case))
    return res


def run_dsdna(cid, rng, workdir, res):
    """gen_params -dsdna on a strand given as a residue graph whose ids need not start at 1: the molecule holds the 2n
    residues once each, in id order, numbered by their ids, each a verbatim copy of its block"""
    import json
    from pathlib import Path
    import networkx as nx
    from networkx.readwrite import json_graph
    from ..monitors import pipeline
    from ..oracle import itp_min
    from .C19 import comp_name, ONE
    names = ["D" + b + s_ for b in "ACGT" for s_ in ("", "5", "3")]
    natoms = {nm: rng.randint(1, 3) for nm in names}
    ff = []
    for nm in names:
        ff += ["[ moleculetype ]", "%s 1" % nm, "[ atoms ]"]
        for j in range(natoms[nm]):
            ff.append("%d P%d 1 %s %s %d 0.0 72.0" % (j + 1, j + 1, nm, "BB" if j == 0 else "S%d" % j, j + 1))
        if natoms[nm] > 1:
            ff += ["[ bonds ]"] + ["BB S%d 1 0.3 1000" % j for j in range(1, natoms[nm])]
    ff += ["[ link ]", 'resname "%s"' % "|".join(names), "[ bonds ]", "BB +BB 1 0.35 1000"]
    (Path(workdir) / "dna.ff").write_text("\n".join(ff) + "\n")
    n = rng.randint(2, 12)
    seq = "".join(rng.choice("ACGT") for _ in range(n))
    first = [ONE[c] for c in seq]
    first[0] += "5"
    first[-1] += "3"
    roff = rng.choice([0, 0, 4, 10])
    g = nx.Graph()
    for i in range(n):
        g.add_node(i, resname=first[i], resid=i + 1 + roff)
    g.add_edges_from((i, i + 1) for i in range(n - 1))
    json.dump(json_graph.node_link_data(g), open(Path(workdir) / "d.json", "w"))
    out = Path(workdir) / "ds.itp"
    run = pipeline.run_gen_params(name="DS", outpath=out, inpath=[Path(workdir) / "dna.ff"], lib=None, seq=None,
                                  seq_file=Path(workdir) / "d.json", dsdna=True)
    res["sig"] = sig_of([seq, roff, sorted(natoms.items())])
    res["sample"] = {"sequence": seq, "first_residue_id": roff + 1, "stratum": "gen_params -dsdna"}
    res["nontrivial"] = True
    w = {"sequence": seq, "first_residue_id": roff + 1}
    if run["status"] != "ok":
        res["status"] = "rejected"
        violation(res, "rejects-valid-input:dsdna:%s" % run.get("exc_type"), run["error"], w)
        return res
    bump(res, "dsdna_cases")
    if roff:
        bump(res, "dsdna_cases_ids_not_from_one")
    obs = itp_min.read_itp(str(out))
    allnames = first + [comp_name(first[n - k]) for k in range(1, n + 1)]
    want = []
    for k, nm in enumerate(allnames):
        for j in range(natoms[nm]):
            want.append((roff + k + 1, nm, "BB" if j == 0 else "S%d" % j, "P%d" % (j + 1)))
    got = [(a["resid"], a["resname"], a["name"], a["atype"]) for a in obs["atoms"]]
    bump(res, "residues_checked", 2 * n)
    bump(res, "atoms_checked", len(got))
    if got != want:
        k = next((i for i in range(min(len(got), len(want))) if got[i] != want[i]), min(len(got), len(want)))
        violation(res, "residue-sequence:dsdna", "atom %d of the written molecule is %s, the strand and its complement in residue-id "
                  "order give %s (%d atoms written, %d expected)" % (k + 1, got[k] if k < len(got) else None,
                                                                    want[k] if k < len(want) else None, len(got), len(want)), w)
    return res
