"""C13 - generated topology is independent of labelling, ordering and run history."""
import copy
import os
from pathlib import Path

from ..core import new_result, bump, violation, sig_of, note
from ..gen import paramcase
from ..gen import ff as FF
from ..gen import resgraph as RG
from ..oracle import itp_min, refparams
from . import _params_common as PC

PID = "C13"
LEVEL = "exploration"
RULE = ("metamorphic differential on the real gen_params: each seeded base case (same generator as C01/C02 incl. "
        "mixed exclusion distances and from_itp fragments) is re-run under (a) node keys relabelled (shifted, "
        "permuted, strings), node insertion order shuffled, edges reversed and reordered - residue ids fixed; "
        "(b) blocks, links and input files permuted when the reference matcher finds no two links defining the same "
        "(section, atoms, version); (c) after 1-3 other successful or failing gen_params calls in the same process; "
        "(d) twice (files must be byte-identical after the first header line). Canonical output = atoms table + "
        "multiset of interactions + nrexcl + exclusions. non-trivial = base case with >= 2 residues and >= 1 "
        "transform executed; distinct = hash(files, graph)"
        ' Later strata: links that replace an atom type next to links that select by type, definitions rewritten at paths an earlier call had read, the same command in separate interpreters with different string-hash seeds.')
ASSUMPTIONS = ["'conflict' = two link definitions producing the same (section, ordered atoms, version) key or replacing "
               "the same attribute of the same atom - computed by the C02 reference; conflicting cases are only "
               "relabelled, not permuted",
               "file-order transform restricted to force fields whose blocks carry no pairs/exclusions/impropers "
               "and no explicit versions (see DESIGN C13: an .itp finalisation re-derives edges and version tags "
               "for everything loaded before it)"]
CASE_TIMEOUT = 120
WALL = {"quick": 900, "thorough": 7200}
REQUIRED = {"process_runs": 40, "cases_with_type_replacing_links": 80, "history_same_paths_other_content": 50, "relabel_runs": 500, "permute_runs": 200, "history_runs": 200, "repeat_runs": 200, "file_order_runs": 30,
            "mixed_nrexcl_cases": 50, "fragment_cases": 20, "file_order_runs_unrestricted": 40, "termini_relabel_runs": 100, "termini_modified": 100, "non_edge_end_link_cases": 30}


def plan(tier, seed):
    n = 900 if tier == "quick" else 20000
    return [["meta", i] for i in range(n)] + [["fileorder", i] for i in range(n // 6)] + [["termini", i] for i in range(n // 6)] + \
        [["processes", i] for i in range(max(12, n // 60))] + [["nonedge", i] for i in range(n // 15)]


def setup():
    PC.setup()


def canon(path):
    o = itp_min.read_itp(path)
    atoms = [(a["atype"], a["resid"], a["resname"], a["name"], a["cg"], a["charge"], a["mass"]) for a in o["atoms"]]
    inter = {sec: sorted((k, n) for k, n in cnt.items()) for sec, cnt in o["inter"].items() if cnt}
    return {"nrexcl": o["nrexcl"], "atoms": atoms, "inter": inter, "raw": {k: sorted(map(str, v)) for k, v in o["raw"].items()}}


def first_diff(a, b):
    if a["nrexcl"] != b["nrexcl"]:
        return "nrexcl %s vs %s" % (a["nrexcl"], b["nrexcl"])
    if a["atoms"] != b["atoms"]:
        for i, (x, y) in enumerate(zip(a["atoms"], b["atoms"])):
            if x != y:
                return "atom %d: %s vs %s" % (i + 1, x, y)
        return "atom count %d vs %d" % (len(a["atoms"]), len(b["atoms"]))
    for sec in sorted(set(a["inter"]) | set(b["inter"])):
        x, y = a["inter"].get(sec, []), b["inter"].get(sec, [])
        if x != y:
            only_a = [k for k in x if k not in y][:2]
            only_b = [k for k in y if k not in x][:2]
            return "[%s] only in base %s, only in transform %s" % (sec, only_a, only_b)
    return None


def run(case, workdir, graph_file, out):
    p = os.path.join(workdir, out)
    if os.path.exists(p):
        os.remove(p)
    r = PC.run_case_files(case, workdir, graph_file=graph_file, out=out)
    return r, p


def relabel(rng, graph):
    """new node keys, shuffled insertion order, reversed / reordered edges; resids untouched"""
    n = len(graph["nodes"])
    mode = rng.choice(["shift", "perm", "str", "rev"])
    keys = [nd["key"] for nd in graph["nodes"]]
    if mode == "shift":
        k = rng.randint(1, 50)
        m = {x: x + k for x in keys}
    elif mode == "perm":
        sh = keys[:]
        rng.shuffle(sh)
        m = dict(zip(keys, sh))
    elif mode == "str":
        m = {x: "n%d" % ((x * 7 + 3) % 101) for x in keys}
        if len(set(m.values())) < n:
            m = {x: "n%d" % x for x in keys}
    else:
        m = {x: keys[-1 - i] for i, x in enumerate(keys)}
    g = {"kind": graph["kind"], "nodes": [dict(nd, key=m[nd["key"]]) for nd in graph["nodes"]],
         "edges": [(m[a], m[b], lab) for a, b, lab in graph["edges"]]}
    order = list(range(n))
    rng.shuffle(order)
    g["nodes"] = [g["nodes"][i] for i in order]
    rng.shuffle(g["edges"])
    g["edges"] = [(b, a, lab) if rng.random() < 0.5 else (a, b, lab) for a, b, lab in g["edges"]]
    return g, mode


def conflicts(ref_stats_case):
    return ref_stats_case


def run_fileorder(cid, rng, workdir, res):
    """input-file order with force fields whose .ff part carries pairs / exclusions / impropers and explicit version
    tags: an .itp that is read later re-derives bond edges from *every* interaction type and rewrites the version tags
    of everything already loaded (see known finding)"""
    case = paramcase.build(rng, profile="full", layouts=["ff+itp", "itp+ff"], unrestricted_ff_sections=True, nmin=2, nmax=6,
                           max_links=3, link_opts={"p_version": 0.4, "p_nonedge": 0.0, "p_pattern": 0.0})
    res["sig"] = sig_of([case["files"], case["graph"]])
    res["sample"] = case["descr"]
    if len(case["inpath"]) != 2:
        res["status"] = "rejected"
        return res
    paramcase.write_case(case, workdir)
    r1, p1 = run(case, workdir, "case.json", "a.itp")
    if r1["status"] != "ok":
        res["status"] = "rejected"
        return res
    base = canon(p1)
    r2, p2 = run(dict(case, inpath=list(reversed(case["inpath"]))), workdir, "case.json", "b.itp")
    bump(res, "file_order_runs_unrestricted")
    res["nontrivial"] = True
    if r2["status"] != "ok":
        violation(res, "file-order-rejected:%s" % r2.get("exc_type"), "reversed input file order rejected: %s" % r2["error"], PC.witness(case))
        return res
    d = first_diff(base, canon(p2))
    if d:
        violation(res, "file-order-changes-output:itp-finalisation-rewrites-earlier-definitions",
                  "output differs when the .itp file is read before / after the .ff file: %s" % d, PC.witness(case))
    return res


def run_termini(cid, rng, workdir, res):
    """protein-like force field with N-ter / C-ter modifications (applied by default to the residues with the lowest
    and the highest residue id): relabelling node keys / shuffling node order must not move them"""
    import json as _json
    names = ["GLY", "ALA", "SER"][:rng.randint(1, 3)]
    L = []
    for nm in names:
        na = rng.randint(1, 3)
        L += ["[ moleculetype ]", "%s 1" % nm, "[ atoms ]"]
        for i in range(na):
            L.append("%d %s 1 %s %s %d 0.0 72.0" % (i + 1, rng.choice(["P1", "P2", "C1"]), nm, "BB" if i == 0 else "SC%d" % i, i + 1))
        if na > 1:
            L.append("[ bonds ]")
            for i in range(1, na):
                L.append("BB SC%d 1 0.3 1000" % i)
    L += ["[ link ]", 'resname "%s"' % "|".join(names), "[ bonds ]", "BB +BB 1 0.350 1250"]
    for mname, q in (("N-ter", 1.0), ("C-ter", -1.0)):
        L += ["[ modification ]", mname, "[ atoms ]", 'BB {"resname": "%s", "replace": {"atype": "Q%s", "charge": %s}}' %
              ("|".join(names), "d" if q > 0 else "a", q)]
    text = "\n".join(L) + "\n"
    n = rng.randint(2, 8)
    start = rng.choice([1, 1, 4])
    graph = {"kind": "lin", "nodes": [{"key": i, "resname": rng.choice(names), "resid": start + i} for i in range(n)],
             "edges": [(i, i + 1, None) for i in range(n - 1)]}
    case = {"files": [("prot.ff", text)], "inpath": ["prot.ff"], "graph": graph,
            "descr": {"layout": "protein-termini", "graph": RG.describe(graph)}}
    with open(os.path.join(workdir, "prot.ff"), "w") as fh:
        fh.write(text)
    RG.to_json(graph, os.path.join(workdir, "case.json"))
    res["sig"] = sig_of([text, graph])
    res["sample"] = case["descr"]
    r, p = run(case, workdir, "case.json", "base.itp")
    if r["status"] != "ok":
        res["status"] = "rejected"
        violation(res, "rejects-valid-input:termini:%s" % r.get("exc_type"), r["error"], PC.witness(case))
        return res
    base = canon(p)
    res["nontrivial"] = True
    # the termini must be modified in the base run (otherwise the stratum observes nothing)
    ter = [a for a in base["atoms"] if a[0] in ("Qd", "Qa")]
    bump(res, "termini_modified", len(ter))
    for t in range(2):
        g2, mode = relabel(rng, graph)
        RG.to_json(g2, os.path.join(workdir, "relabel.json"))
        r2, p2 = run(case, workdir, "relabel.json", "t.itp")
        bump(res, "termini_relabel_runs")
        if r2["status"] != "ok":
            violation(res, "relabel-rejected:termini:%s" % r2.get("exc_type"), "relabelled (%s) protein graph rejected: %s" %
                      (mode, r2["error"]), PC.witness(case, {"relabelled_graph": g2}))
            continue
        d = first_diff(base, canon(p2))
        if d:
            violation(res, "relabel-changes-output:terminal-modifications", "terminal modifications move when node keys / node order "
                      "change (%s): %s" % (mode, d), PC.witness(case, {"relabelled_graph": g2}))
    return res


def run_nonedge(cid, rng, workdir, res):
    """a backbone link and an 'only at the chain end' link whose [ non-edges ] line names the backbone bond to the
    neighbouring residue (the construction of the 'First SBB' links of the shipped martini3 amino acids): the two links
    define different interactions, so neither the order of their definitions nor the node keys may change the result"""
    na = rng.randint(2, 3)
    L = ["[ moleculetype ]", "A 1", "[ atoms ]"]
    for i in range(na):
        L.append("%d %s 1 A %s %d 0.0 72.0" % (i + 1, rng.choice(["P1", "P2", "C1"]), "BB" if i == 0 else "SC%d" % i, i + 1))
    L.append("[ bonds ]")
    for i in range(1, na):
        L.append("BB SC%d 1 0.3 1000" % i)
    bb = ["[ link ]", 'resname "A"', "[ bonds ]", "BB +BB 1 0.400 3000"]
    if rng.random() < 0.5:
        ter = ["[ link ]", 'resname "A"', "[ angles ]", "SC1 BB +BB 2 %d 25" % rng.randint(91, 170), "[ non-edges ]", "BB -BB"]
        end = "first"
    else:
        ter = ["[ link ]", 'resname "A"', "[ angles ]", "-BB BB SC1 2 %d 25" % rng.randint(91, 170), "[ non-edges ]", "BB +BB"]
        end = "last"
    block = "\n".join(L) + "\n"
    n = rng.randint(3, 7)
    graph = {"kind": "lin", "nodes": [{"key": i, "resname": "A", "resid": i + 1} for i in range(n)],
             "edges": [(i, i + 1, None) for i in range(n - 1)]}
    texts = {"bb_first.ff": block + "\n".join(bb + ter) + "\n", "end_first.ff": block + "\n".join(ter + bb) + "\n"}
    for nm, t in texts.items():
        with open(os.path.join(workdir, nm), "w") as fh:
            fh.write(t)
    RG.to_json(graph, os.path.join(workdir, "case.json"))
    res["sig"] = sig_of([texts, n])
    res["sample"] = {"layout": "chain-end link with a non-edge on the backbone bond", "end": end, "residues": n}
    res["nontrivial"] = True
    bump(res, "non_edge_end_link_cases")
    outs = {}
    for tag, ffile, gfile in (("backbone link first", "bb_first.ff", "case.json"), ("end link first", "end_first.ff", "case.json"),
                              ("end link first, node keys reversed", "end_first.ff", "rev.json"),
                              ("backbone link first, node keys reversed", "bb_first.ff", "rev.json")):
        if gfile == "rev.json" and not os.path.exists(os.path.join(workdir, gfile)):
            g2 = {"kind": "lin", "nodes": [dict(nd, key=n - 1 - nd["key"]) for nd in graph["nodes"]],
                  "edges": [(n - 1 - a, n - 1 - b, lab) for a, b, lab in graph["edges"]]}
            RG.to_json(g2, os.path.join(workdir, gfile))
        case = {"files": [(ffile, texts[ffile])], "inpath": [ffile], "graph": graph, "descr": res["sample"]}
        r, p_ = run(case, workdir, gfile, "o_%d.itp" % len(outs))
        if r["status"] != "ok":
            violation(res, "rejects-valid-input:nonedge:%s" % r.get("exc_type"), "%s: %s" % (tag, r["error"]), PC.witness(case))
            return res
        outs[tag] = canon(p_)
    base_tag = "backbone link first"
    for tag, o in outs.items():
        if tag == base_tag:
            continue
        d = first_diff(outs[base_tag], o)
        bump(res, "non_edge_outcomes_compared")
        if d:
            violation(res, "non-edges-judged-on-the-molecule-built-so-far", "the chain-end link (non-edge on the backbone bond, %s "
                      "residue only) gives another result with '%s' than with '%s': %s" % (end, tag, base_tag, d),
                      {"files": texts, "residues": n})
            return res
    return res


PROCESS_RUNS = [(["martini3"], ["PEO:3", "PS:2"]), (["martini3"], ["PEO:4"]), (["martini3", "martini2"], ["PEO:3"]),
                (["martini2", "martini3"], ["PS:3"]), (["2016H66"], ["PEO:3", "PS:2"]), (["martini3"], ["ALA:2", "GLY:2", "LYS:1"]),
                (["parmbsc1"], ["DA5:1", "DC:2", "DG3:1"]), (["oplsaaLigParGen"], ["PEO:4"]), (["gromos53A6"], ["P3HT:3"])]


def run_processes(cid, rng, workdir, res):
    """the same command in fresh interpreters (every process has its own string-hash seed, as on a user's machine):
    the files must be identical apart from the first line"""
    import subprocess
    import sys
    from ..core import REPO
    libs, seq = PROCESS_RUNS[cid[1] % len(PROCESS_RUNS)]
    args = ["gen_params", "-lib"] + libs + ["-seq"] + seq + ["-name", "P", "-o", "out.itp"]
    outs = []
    for k, hs in enumerate(rng.sample(range(1, 1000), 4)):
        d = os.path.join(workdir, "p%d" % k)
        os.makedirs(d, exist_ok=True)
        env = dict(os.environ, PYTHONPATH=REPO, TQDM_DISABLE="1", PYTHONHASHSEED=str(hs))
        p = subprocess.run([sys.executable, os.path.join(REPO, "bin", "polyply")] + args, cwd=d, env=env,
                           stdout=subprocess.DEVNULL, stderr=subprocess.PIPE, timeout=110)
        if p.returncode != 0 or not os.path.exists(os.path.join(d, "out.itp")):
            res["status"] = "rejected"
            note(res, "rejections", "processes: %s" % p.stderr.decode()[-120:])
            return res
        outs.append((hs, open(os.path.join(d, "out.itp"), "rb").read().split(b"\n", 1)[1]))
    res["sig"] = sig_of(args)
    res["sample"] = {"command": args, "hash_seeds": [h for h, _ in outs]}
    res["nontrivial"] = True
    bump(res, "process_runs", len(outs))
    ref_hs, ref = outs[0]
    for hs, body in outs[1:]:
        if body != ref:
            a, b = ref.split(b"\n"), body.split(b"\n")
            k = next((i for i in range(min(len(a), len(b))) if a[i] != b[i]), min(len(a), len(b)))
            where = "header-comment" if (k < len(a) and a[k].startswith(b";")) else "body"
            violation(res, "repeat-not-identical:separate-processes:%s" % where,
                      "the same command run in two interpreters (string-hash seeds %d and %d) writes different files: line %d is "
                      "%r / %r" % (ref_hs, hs, k + 2, a[k][:90] if k < len(a) else None, b[k][:90] if k < len(b) else None),
                      {"command": args, "hash_seeds": [ref_hs, hs]})
            break
    return res


def run_case(cid, rng, workdir):
    res = new_result()
    if cid[0] == "processes":
        return run_processes(cid, rng, workdir, res)
    if cid[0] == "fileorder":
        return run_fileorder(cid, rng, workdir, res)
    if cid[0] == "termini":
        return run_termini(cid, rng, workdir, res)
    if cid[0] == "nonedge":
        return run_nonedge(cid, rng, workdir, res)
    neutral = rng.random() < 0.35
    kw = dict(nmin=2, nmax=7, max_links=4, link_opts={"p_remove": 0.05, "p_replace": 0.15, "p_edge": 0.15,
                                                      "linktypes": True, "p_nonedge": 0.0})
    if rng.random() < 0.2:
        # one link replaces an atom type, another selects atoms by type: which of the two is defined first must not matter
        kw["link_opts"] = dict(kw["link_opts"], p_pattern=0.0, replace_atype=True, p_attr=0.6, p_replace=0.6)
        kw["max_links"] = 5
        bump(res, "cases_with_type_replacing_links")
    if neutral:
        case = paramcase.build(rng, profile="sensible", layouts=["ff+itp", "itp+ff"], **kw)
        for l in case["ff_links"]:
            for it in l["inter"]:
                it["meta"].pop("version", None)
    else:
        case = paramcase.build(rng, profile="full", **kw)
    paramcase.write_case(case, workdir)
    res["sig"] = sig_of([case["files"], case["graph"]])
    res["sample"] = case["descr"]
    try:
        ref = refparams.reference(case["spec"], case["graph"])
    except refparams.Unsupported:
        res["status"] = "rejected"
        return res
    base_run, base_path = run(case, workdir, "case.json", "base.itp")
    wc = []

    def w(extra=None):
        if not wc:
            wc.append(PC.witness(case))
        return dict(wc[0], **(extra or {}))

    if base_run["status"] != "ok":
        res["status"] = "rejected"
        violation(res, "rejects-valid-input:%s" % base_run.get("exc_type"), "gen_params raised %s" % base_run["error"], w())
        return res
    base = canon(base_path)
    base_bytes = open(base_path, "rb").read().split(b"\n", 1)[1]
    res["nontrivial"] = len(case["graph"]["nodes"]) >= 2
    if len(ref["nrexcls"]) > 1:
        bump(res, "mixed_nrexcl_cases")
    if any(n.get("from_itp") for n in case["graph"]["nodes"]):
        bump(res, "fragment_cases")

    # (a) relabelling -------------------------------------------------------------------------------------------
    for t in range(2):
        g2, mode = relabel(rng, case["graph"])
        RG.to_json(g2, os.path.join(workdir, "relabel.json"))
        r, p = run(case, workdir, "relabel.json", "t.itp")
        bump(res, "relabel_runs")
        note(res, "relabel_modes", mode)
        if r["status"] != "ok":
            violation(res, "relabel-rejected:%s" % r.get("exc_type"),
                      "same residue graph with %s node keys / shuffled insertion order is rejected: %s" % (mode, r["error"]),
                      w({"relabelled_graph": g2}))
            continue
        d = first_diff(base, canon(p))
        if d:
            violation(res, "relabel-changes-output", "output differs after relabelling (%s): %s" % (mode, d),
                      w({"relabelled_graph": g2}))

    # (b) permutation of non-conflicting definitions ------------------------------------------------------------
    keyowners = {}
    conflict = False
    if not conflict:
        conflict = _has_conflict(case, ref)
    if not conflict:
        c2 = copy.deepcopy(case)
        blocks = c2["spec"]["blocks"]
        ffb = [b for b in blocks if b["syntax"] == "ff"]
        itb = [b for b in blocks if b["syntax"] == "itp"]
        rng.shuffle(ffb)
        rng.shuffle(itb)
        links = c2["ff_links"][:]
        rng.shuffle(links)
        files = []
        for name, _ in c2["files"]:
            if name == "case.ff":
                # links may also precede the blocks in the file
                parts = [FF.render_blocks_ff(ffb), FF.render_links_ff(links)]
                if rng.random() < 0.3:
                    parts.reverse()
                files.append((name, "\n".join(parts[0] + parts[1]) + "\n"))
            else:
                files.append((name, "\n".join(FF.render_blocks_itp(itb)) + "\n"))
        c2["files"] = files
        sub = os.path.join(workdir, "perm")
        os.makedirs(sub, exist_ok=True)
        paramcase.write_case(c2, sub)
        r, p = run(c2, sub, "case.json", "t.itp")
        bump(res, "permute_runs")
        if r["status"] != "ok":
            violation(res, "permute-rejected:%s" % r.get("exc_type"), "permuted definitions rejected: %s" % r["error"],
                      w({"permuted_files": dict(files)}))
        else:
            d = first_diff(base, canon(p))
            if d:
                violation(res, "definition-order-changes-output", "output differs after permuting non-conflicting "
                          "blocks/links inside their files: %s" % d, w({"permuted_files": dict(files)}))
        # input file order (edge/version-neutral force fields only)
        if len(case["inpath"]) == 2:
            c3 = dict(case, inpath=list(reversed(case["inpath"])))
            r, p = run(c3, workdir, "case.json", "t.itp")
            bump(res, "file_order_runs")
            if r["status"] != "ok":
                violation(res, "file-order-rejected:%s" % r.get("exc_type"), "reversed input file order rejected: %s" %
                          r["error"], w())
            else:
                d = first_diff(base, canon(p))
                if d:
                    violation(res, "file-order-changes-output", "output differs when the input files are given in the "
                              "other order: %s" % d, w())
    else:
        bump(res, "conflicting_cases_not_permuted")

    # (c) history: other calls first ----------------------------------------------------------------------------
    nprev = rng.randint(1, 3)
    shared_inpath = [Path(workdir) / p_ for p_ in case["inpath"]]        # one list object handed to several calls
    shared_copy = list(shared_inpath)
    if rng.random() < 0.3:
        # an earlier call that uses a shipped library together with the caller's own list of input files
        from ..monitors import pipeline as _pl
        _pl.run_gen_params(name="PEO", outpath=Path(workdir) / "libcall.itp", inpath=shared_inpath, lib=["martini3"],
                           seq=["PEO:3"], seq_file=None)
        bump(res, "history_library_calls")
        if shared_inpath != shared_copy:
            violation(res, "call-modifies-its-arguments", "gen_params(lib=...) changed the caller's inpath list from %d to %d "
                      "entries" % (len(shared_copy), len(shared_inpath)), w())
            shared_inpath = list(shared_copy)
    for k in range(nprev):
        other = paramcase.build(rng, profile="full", nmin=1, nmax=5, link_opts={"p_remove": 0.3, "p_replace": 0.3})
        sub = os.path.join(workdir, "hist%d" % k)
        os.makedirs(sub, exist_ok=True)
        paramcase.write_case(other, sub)
        if rng.random() < 0.3:
            # a failing call: residue name without block
            other["graph"]["nodes"][0]["resname"] = "NOBLOCK"
            RG.to_json(other["graph"], os.path.join(sub, "case.json"))
            bump(res, "history_failing_calls")
        run(other, sub, "case.json", "o.itp")
    if rng.random() < 0.35:
        # an earlier call that read other definitions from the very same paths (the user edited the files in between)
        other = paramcase.build(rng, profile="full", nmin=1, nmax=5, layouts=[case["layout"]])
        if [n_ for n_, _ in other["files"]] == [n_ for n_, _ in case["files"]]:
            sub = os.path.join(workdir, "hist_ref")
            os.makedirs(sub, exist_ok=True)
            paramcase.write_case(other, sub)
            r_ref, p_ref = run(other, sub, "case.json", "o.itp")
            paramcase.write_case(other, workdir, graph_name="hist_same_path.json")
            r_same, p_same = run(other, workdir, "hist_same_path.json", "o_same_path.itp")
            paramcase.write_case(case, workdir)
            bump(res, "history_same_paths_other_content")
            if r_ref["status"] != r_same["status"]:
                violation(res, "history-changes-output:paths-read-before", "definitions written to paths that an earlier call "
                          "in the process had read: %s, the same files elsewhere: %s" % (r_same["status"], r_ref["status"]), w())
            elif r_ref["status"] == "ok":
                d = first_diff(canon(p_ref), canon(p_same))
                if d:
                    violation(res, "history-changes-output:paths-read-before", "output for definitions written to paths that an "
                              "earlier call in the process had read differs from the output for the same files elsewhere: %s" % d, w())
    r, p = run(case, workdir, "case.json", "t.itp")
    bump(res, "history_runs")
    if r["status"] != "ok":
        violation(res, "history-rejected:%s" % r.get("exc_type"), "same call fails after %d other calls: %s" % (nprev, r["error"]), w())
    else:
        d = first_diff(base, canon(p))
        if d:
            violation(res, "history-changes-output", "output differs after %d other gen_params calls in the process: %s" %
                      (nprev, d), w())
        # (d) repeated run: byte-identical apart from the header line
        bump(res, "repeat_runs")
        again = open(p, "rb").read().split(b"\n", 1)[1]
        if again != base_bytes:
            violation(res, "repeat-not-identical", "two runs of the same call give different files (beyond the first "
                      "header line)", w())
    return res


def _has_conflict(case, ref):
    """two *different* links writing the same key, or replacing the same atom attribute"""
    # recompute with ownership: run the reference per single link and intersect keys
    spec = case["spec"]
    owners = {}
    repl = {}
    for li, link in enumerate(spec["links"]):
        sub = {"blocks": spec["blocks"], "links": [link]}
        try:
            r = refparams.reference(sub, case["graph"])
        except refparams.Unsupported:
            return True
        for k in r["link_keys"]:
            if k in owners and owners[k] != li:
                return True
            owners[k] = li
        for a, d in r["replaced"].items():
            for attr in d:
                if (a, attr) in repl and repl[(a, attr)] != li:
                    return True
                repl[(a, attr)] = li
        if r["removed"]:
            # removal interacts with every other link touching the atom
            for k in owners:
                pass
    # a link overriding a block interaction is order independent (links always come after blocks)
    # non-edges / patterns depend on edges and attributes made by earlier links
    for link in spec["links"]:
        if link.get("nonedges") or link.get("patterns"):
            return True
    return False
