"""C09 - parameters are resolved as GROMACS preprocessing would resolve them."""
import itertools
import os

from ..core import new_result, bump, violation, sig_of, note

PID = "C09"
LEVEL = "exploration"
RULE = ("seeded topologies: bond/angle/constraint/dihedral type tables over 5 atom types (entries in either orientation, "
        "every one of the 16 dihedral wildcard masks, 1-3 terms per dihedral type, optional bond-type indirection with "
        "_FF_OPLS), molecules whose parameter-less interactions are listed in both directions, #define macros in "
        "interaction lines, 1-4 instances spread over one or several [molecules] lines; atom-type tables with sigma/"
        "epsilon or C6/C12 over 12 decades, explicit nonbond_params subsets incl. self pairs, gen-pairs yes/no. After "
        "Topology.preprocess() every interaction of every molecule *instance* is compared with an independent resolver "
        "(exact or reversed key; for dihedrals the least-wildcarded entry matching in either direction; all terms), "
        "and the nonbond table is checked for override / self-term / conversion laws. non-trivial = topology with >= 1 "
        "parameter-less interaction resolved; distinct = hash(topology text)"
        ' Later: macros that contain the function type, macros defined twice (last one in force), macros in [ pairs ].')
ASSUMPTIONS = ["ties between equally specific entries are accepted in either direction",
               "the combination rule used for generated pairs is not checked (not in the statement)",
               "a parameter-less interaction without any matching entry must make preprocess() raise OSError"]
CASE_TIMEOUT = 60
WALL = {"quick": 900, "thorough": 7200}
REQUIRED = {"interactions_resolved": 5000, "dihedrals_resolved": 2000, "wildcard_matches": 500, "reverse_only_matches": 300,
            "multi_term_expansions": 300, "instances_checked": 2000, "expected_failures": 50, "macros_substituted": 200,
            "nonbond_pairs_checked": 3000, "explicit_overrides": 300, "c6c12_conversions": 500, "masks_seen": 14,
            "opls_cases": 30, "multi_line_molecules": 100, "other_moleculetype_instances": 200,
            "macros_with_function_type": 100, "macros_in_pairs": 100, "macros_defined_twice": 30,
            "generated_pairs_checked_for_symmetry": 500,
            "conditional_alternatives_checked": 500, "zero_c6_c12_entries": 100}
TYPES = ["ta", "tb", "tc", "td", "te"]


def plan(tier, seed):
    n = 4000 if tier == "quick" else 40000
    return [["top", i] for i in range(n)] + [["cond", i] for i in range(n // 10)]


def setup():
    pass


def fmt(x):
    return "%.6g" % x


def gen(rng):
    opls = rng.random() < 0.15
    btypes = {t: (("B" + t[1].upper()) if opls else t) for t in TYPES}
    if opls and rng.random() < 0.5:
        btypes["tb"] = btypes["ta"]          # two atom types sharing one bond type
    comb = rng.choice([1, 2, 3])
    genpairs = rng.choice(["yes", "no"])
    form = rng.random()
    if form < 0.2:
        lines = ["[ defaults ]", "1 %d %s" % (comb, genpairs)]          # fudge factors left out
    elif form < 0.3 and genpairs == "no":
        lines = ["[ defaults ]", "1 %d" % comb]                         # gen-pairs left out as well: no
    else:
        lines = ["[ defaults ]", "1 %d %s 1.0 1.0" % (comb, genpairs)]
    if opls:
        lines.insert(0, "#define _FF_OPLS")
    atypes = {}
    lines.append("[ atomtypes ]")
    for t in TYPES:
        if comb == 1:
            v = 10 ** rng.uniform(-6, 0)
            w = 10 ** rng.uniform(-9, -3)
        else:
            v = rng.uniform(0.2, 0.7)
            w = rng.uniform(0.1, 5.0)
        v, w = float(fmt(v)), float(fmt(w))
        if comb == 1 and genpairs == "no" and t != TYPES[0] and rng.random() < 0.2:
            v, w = 0.0, 0.0          # a type without Lennard-Jones interaction (C6 = C12 = 0), after a type that has one
        atypes[t] = (v, w)
        if opls:
            lines.append("%s %s 6 12.011 0.0 A %s %s" % (t, btypes[t], fmt(v), fmt(w)))
        else:
            lines.append("%s 12.011 0.0 A %s %s" % (t, fmt(v), fmt(w)))
    # explicit nonbond params
    nbp = {}
    pairs = list(itertools.combinations_with_replacement(TYPES, 2))
    rng.shuffle(pairs)
    chosen = pairs[:rng.randint(0, 6)]
    if chosen:
        lines.append("[ nonbond_params ]")
        for a, b in chosen:
            if comb == 1:
                v, w = 10 ** rng.uniform(-6, 0), 10 ** rng.uniform(-9, -3)
            else:
                v, w = rng.uniform(0.2, 0.7), rng.uniform(0.1, 5.0)
            v, w = float(fmt(v)), float(fmt(w))
            if comb == 1 and rng.random() < 0.1:
                v, w = 0.0, 0.0      # an explicit pair that switches the interaction off
            if rng.random() < 0.5:
                a, b = b, a
            nbp[frozenset((a, b))] = (v, w)
            lines.append("%s %s 1 %s %s" % (a, b, fmt(v), fmt(w)))
    BT = sorted(set(btypes.values()))
    tables = {"bonds": {}, "angles": {}, "constraints": {}, "dihedrals": {}}
    order = {"bonds": [], "angles": [], "constraints": [], "dihedrals": []}

    def add(sec, key, params):
        if key not in tables[sec]:
            tables[sec][key] = []
            order[sec].append(key)
        tables[sec][key].append(params)
    # the molecule is drawn first so that the tables can be biased towards (but not restricted to) matching entries
    natoms = rng.randint(4, 7)
    at = [rng.choice(TYPES) for _ in range(natoms)]
    bt = [btypes[t] for t in at]
    miss = 0.02

    def orient(key):
        return tuple(key) if rng.random() < 0.5 else tuple(reversed(key))
    for i in range(natoms - 1):
        if rng.random() > miss:
            key = orient((bt[i], bt[i + 1]))
            if key not in tables["bonds"] and key[::-1] not in tables["bonds"] or rng.random() < 0.1:
                if key not in tables["bonds"]:
                    add("bonds", key, ["1", "%.3f" % rng.uniform(0.1, 0.2), str(rng.randint(1000, 9999))])
    for i in range(natoms - 2):
        if rng.random() > miss:
            key = orient((bt[i], bt[i + 1], bt[i + 2]))
            if key not in tables["angles"]:
                add("angles", key, ["1", str(rng.randint(90, 180)), str(rng.randint(100, 900))])
        key = orient((bt[i], bt[i + 2]))
        if key not in tables["constraints"] and rng.random() < 0.6:
            add("constraints", key, ["1", "%.3f" % rng.uniform(0.1, 0.2)])
    masks = list(itertools.product([0, 1], repeat=4))
    for i in range(natoms - 3):
        if rng.random() < miss:
            continue
        for _ in range(rng.choice([1, 1, 2, 3])):
            key = orient((bt[i], bt[i + 1], bt[i + 2], bt[i + 3]))
            mask = rng.choice(masks)
            key = tuple("X" if m else k for k, m in zip(key, mask))
            if key in tables["dihedrals"]:
                continue
            for t in range(rng.choice([1, 1, 2, 3])):
                add("dihedrals", key, ["9", "%d.0" % rng.randint(0, 180), "%.3f" % rng.uniform(0.1, 9), str(t + 1)])
    # decoys
    for _ in range(rng.randint(0, 3)):
        key = (rng.choice(BT), rng.choice(BT))
        if key not in tables["bonds"]:
            add("bonds", key, ["1", "%.3f" % rng.uniform(0.1, 0.2), str(rng.randint(1000, 9999))])
    for _ in range(rng.randint(0, 3)):
        key = tuple(rng.choice(BT) for _ in range(3))
        if key not in tables["angles"]:
            add("angles", key, ["1", str(rng.randint(90, 180)), str(rng.randint(100, 900))])
    for _ in range(rng.randint(0, 3)):
        key = [rng.choice(BT) for _ in range(4)]
        mask = rng.choice(masks)
        key = tuple("X" if m else k for k, m in zip(key, mask))
        if key in tables["dihedrals"]:
            continue
        for t in range(rng.choice([1, 1, 2])):
            add("dihedrals", key, ["9", "%d.0" % rng.randint(0, 180), "%.3f" % rng.uniform(0.1, 9), str(t + 1)])
    for sec in order:
        rng.shuffle(order[sec])
    # bond types never equal 'X'
    # every table entry appears once (multi-term = repeated key, consecutive lines)
    names = {"bonds": "bondtypes", "angles": "angletypes", "constraints": "constrainttypes", "dihedrals": "dihedraltypes"}
    for sec in ("bonds", "constraints", "angles", "dihedrals"):
        if tables[sec]:
            lines.append("[ %s ]" % names[sec])
            for key in order[sec]:
                for p in tables[sec][key]:
                    lines.append(" ".join(key) + " " + " ".join(p))
    # macros
    macros = {}
    for k in range(rng.randint(0, 2)):
        if rng.random() < 0.3:
            # the same macro defined before with another value (a force-field file and the user's own file): the
            # definition read last is the one in force
            lines.append("#define gb_%d %.4f %d" % (k, rng.uniform(0.3, 0.4), rng.randint(100, 900)))
            macros.setdefault("_redefined", []).append("gb_%d" % k)
        macros["gb_%d" % k] = ["%.4f" % rng.uniform(0.1, 0.2), str(rng.randint(1000, 9000))]
        lines.append("#define gb_%d %s" % (k, " ".join(macros["gb_%d" % k])))
    if rng.random() < 0.4:
        macros["pm_0"] = ["%.4f" % rng.uniform(0.2, 0.5), "%.3f" % rng.uniform(0.1, 2.0)]
        lines.append("#define pm_0 %s" % " ".join(macros["pm_0"]))
    if rng.random() < 0.5:
        # a macro that stands for the whole tail of the line, function type included (plain text substitution)
        macros["gbf_0"] = ["2", "%.4f" % rng.uniform(0.1, 0.2), str(rng.randint(1000, 9000))]
        lines.append("#define gbf_0 %s" % " ".join(macros["gbf_0"]))
    lines += ["[ moleculetype ]", "MOL 3", "[ atoms ]"]
    for i, t in enumerate(at):
        lines.append("%d %s 1 RES A%d %d 0.0" % (i + 1, t, i, i + 1))
    inter = {"bonds": [], "angles": [], "constraints": [], "dihedrals": []}
    cons_pairs = set()
    lines.append("[ bonds ]")
    for i in range(natoms - 1):
        idx = [i, i + 1] if rng.random() < 0.5 else [i + 1, i]
        c = rng.random()
        if c < 0.15 and any(k_.startswith("gb") for k_ in macros):
            m = rng.choice(sorted(k_ for k_ in macros if k_.startswith("gb")))
            inter["bonds"].append((idx, ("macro", m)))
            if m.startswith("gbf_"):
                lines.append("%d %d %s" % (idx[0] + 1, idx[1] + 1, m))
            else:
                lines.append("%d %d 2 %s" % (idx[0] + 1, idx[1] + 1, m))
        elif c < 0.3:
            p = ["1", "0.150", "5000"]
            inter["bonds"].append((idx, ("explicit", p)))
            lines.append("%d %d %s" % (idx[0] + 1, idx[1] + 1, " ".join(p)))
        else:
            inter["bonds"].append((idx, ("typed", None)))
            lines.append("%d %d 1" % (idx[0] + 1, idx[1] + 1))
    if tables["constraints"] and natoms >= 3 and rng.random() < 0.5:
        lines.append("[ constraints ]")
        i = rng.randrange(natoms - 2)
        idx = [i, i + 2] if rng.random() < 0.5 else [i + 2, i]
        inter["constraints"].append((idx, ("typed", None)))
        lines.append("%d %d 1" % (idx[0] + 1, idx[1] + 1))
    if "pm_0" in macros and natoms >= 4:
        # explicit 1-4 pair parameters given through a macro
        lines.append("[ pairs ]")
        inter["pairs"] = []
        for i in range(natoms - 3):
            if rng.random() < 0.6:
                idx = [i, i + 3]
                inter["pairs"].append((idx, ("macro1", "pm_0")))
                lines.append("%d %d 1 pm_0" % (idx[0] + 1, idx[1] + 1))
    lines.append("[ angles ]")
    for i in range(natoms - 2):
        if rng.random() < 0.7:
            idx = [i, i + 1, i + 2]
            if rng.random() < 0.5:
                idx.reverse()
            inter["angles"].append((idx, ("typed", None)))
            lines.append(" ".join(str(x + 1) for x in idx) + " 1")
    lines.append("[ dihedrals ]")
    for i in range(natoms - 3):
        idx = [i, i + 1, i + 2, i + 3]
        if rng.random() < 0.5:
            idx.reverse()
        inter["dihedrals"].append((idx, ("typed", None)))
        lines.append(" ".join(str(x + 1) for x in idx) + " 9")
    counts = [rng.randint(1, 2) for _ in range(rng.choice([1, 1, 2, 3]))]
    mol_lines = [("MOL", c) for c in counts]
    other = None
    if rng.random() < 0.5:
        # a second molecule type that only has explicit parameters: nothing of MOL's type resolution may reach it
        na2 = rng.randint(2, 4)
        lines += ["[ moleculetype ]", "OTH 1", "[ atoms ]"]
        for i in range(na2):
            lines.append("%d %s 1 OTR B%d %d 0.0" % (i + 1, rng.choice(TYPES), i, i + 1))
        lines.append("[ bonds ]")
        for i in range(na2 - 1):
            lines.append("%d %d 1 0.160 4000" % (i + 1, i + 2))
        other = {"nbonds": na2 - 1}
        mol_lines.insert(rng.randrange(len(mol_lines) + 1), ("OTH", rng.randint(1, 2)))
    lines += ["[ system ]", "x", "[ molecules ]"] + ["%s %d" % x for x in mol_lines]
    return {"text": "\n".join(lines) + "\n", "tables": tables, "at": at, "btypes": btypes, "inter": inter, "macros": macros,
            "ninst": sum(c for _, c in mol_lines), "nlines": len(counts), "comb": comb, "genpairs": genpairs, "atypes": atypes,
            "nbp": nbp, "opls": opls, "other": other}


def resolve(sec, table, types):
    """admissible keys (least number of wildcards, either direction); None if nothing matches"""
    types = tuple(types)
    best = None
    for key in table:
        for cand in (types, types[::-1]):
            if len(key) == len(cand) and all((k == "X" and sec == "dihedrals") or k == a for k, a in zip(key, cand)):
                nw = sum(1 for k in key if k == "X") if sec == "dihedrals" else 0
                if best is None or nw < best[0]:
                    best = (nw, {key})
                elif nw == best[0]:
                    best[1].add(key)
    return best


def run_cond(cid, rng, workdir, res):
    """bonded types given in both branches of #ifdef/#ifndef ... #else ... #endif: the program keeps every alternative
    together with the condition it was written under; an interaction without parameters carries each alternative under
    exactly that condition"""
    from polyply.src.topology import Topology
    tag = rng.choice(["FLEX", "STIFF", "X1"])
    cond = rng.choice(["ifdef", "ifndef"])
    inverse = {"ifdef": "ifndef", "ifndef": "ifdef"}[cond]
    n = rng.randint(2, 5)
    at = [rng.choice(TYPES[:3]) for _ in range(n)]
    pairs = sorted({tuple(sorted((at[i], at[i + 1]))) for i in range(n - 1)})
    with_else = rng.random() < 0.8
    first, second, plain, orient = {}, {}, {}, {}
    L = ["[ defaults ]", "1 2 no 1.0 1.0", "[ atomtypes ]"] + ["%s 12.0 0.0 A 0.3 0.5" % t for t in TYPES[:3]]
    if rng.random() < 0.5:
        L.insert(0, "#define %s" % tag)
    L += ["[ bondtypes ]"]
    for pr in pairs:
        if rng.random() < 0.25:
            plain[pr] = ["1", fmt(rng.uniform(0.1, 0.2)), str(rng.randint(100, 999))]
    for pr, v in plain.items():
        L.append("%s %s %s" % (pr[0], pr[1], " ".join(v)))
    L.append("#%s %s" % (cond, tag))
    for pr in pairs:
        if pr not in plain:
            first[pr] = ["1", fmt(rng.uniform(0.2, 0.3)), str(rng.randint(1000, 1999))]
            orient[pr] = pr if rng.random() < 0.5 else pr[::-1]
            L.append("%s %s %s" % (orient[pr][0], orient[pr][1], " ".join(first[pr])))
    if with_else:
        L.append("#else")
        for pr in pairs:
            if pr not in plain:
                second[pr] = ["1", fmt(rng.uniform(0.3, 0.4)), str(rng.randint(2000, 2999))]
                # written in the same direction as in the first branch (entries of the two branches that name the
                # types in opposite directions are kept under different keys and only one of them is found: observation)
                L.append("%s %s %s" % (orient[pr][0], orient[pr][1], " ".join(second[pr])))
    L.append("#endif")
    L += ["[ moleculetype ]", "M 1", "[ atoms ]"] + ["%d %s 1 R A%d %d 0.0" % (i + 1, at[i], i, i + 1) for i in range(n)]
    L += ["[ bonds ]"] + ["%d %d 1" % (i + 1, i + 2) for i in range(n - 1)]
    L += ["[ system ]", "x", "[ molecules ]", "M %d" % rng.randint(1, 2)]
    text = "\n".join(L) + "\n"
    path = os.path.join(workdir, "c9c.top")
    with open(path, "w") as fh:
        fh.write(text)
    res["sig"] = sig_of(text)
    res["sample"] = {"topology": L[:40]}
    res["nontrivial"] = True
    w = {"top": text}
    bump(res, "conditional_type_cases")
    try:
        top = Topology.from_gmx_topfile(name="x", path=path)
        top.preprocess()
    except Exception as err:      # noqa
        if type(err).__name__ == "CaseTimeout":
            raise
        violation(res, "conditional-types-rejected:%s" % type(err).__name__, "%s: %s" % (type(err).__name__, str(err)[:160]), w)
        return res

    def cond_of(meta):
        if not meta:
            return None
        if "condition" in meta:
            return (meta["tag"], meta["condition"])
        for k in ("ifdef", "ifndef"):
            if k in meta:
                return (meta[k], k)
        return None
    for mi, mm in enumerate(top.molecules):
        got = {}
        for inter in mm.molecule.interactions.get("bonds", []):
            got.setdefault(tuple(inter.atoms), []).append((list(inter.parameters), cond_of(inter.meta)))
        for i in range(n - 1):
            pr = tuple(sorted((at[i], at[i + 1])))
            if pr in plain:
                want = [(plain[pr], None)]
            else:
                want = [(first[pr], (tag, cond))] + ([(second[pr], (tag, inverse))] if with_else else [])
            have = got.get((i, i + 1), [])
            bump(res, "conditional_alternatives_checked", len(want))
            if sorted(map(repr, have)) != sorted(map(repr, want)):
                violation(res, "conditional-type-under-wrong-condition", "bond %d-%d (%s) of instance %d carries %s; the type "
                          "table gives %s" % (i + 1, i + 2, pr, mi, have, want), w)
                return res
    return res


def run_case(cid, rng, workdir):
    res = new_result()
    if cid[0] == "cond":
        return run_cond(cid, rng, workdir, res)
    case = gen(rng)
    path = os.path.join(workdir, "c9.top")
    with open(path, "w") as fh:
        fh.write(case["text"])
    res["sig"] = sig_of(case["text"])
    res["sample"] = {"topology": case["text"].split("\n")[:60]}
    from polyply.src.topology import Topology
    top = Topology.from_gmx_topfile(name="x", path=path)
    w = {"top": case["text"]}
    # expectation
    exp = {}
    unresolved = []
    for sec, lst in case["inter"].items():
        for idx, (kind, val) in lst:
            if kind != "typed":
                continue
            tys = [case["btypes"][case["at"][i]] for i in idx]
            r = resolve(sec, case["tables"][sec], tys)
            exp[(sec, tuple(idx))] = r
            if r is None:
                unresolved.append((sec, idx, tys))
    if case["opls"]:
        bump(res, "opls_cases")
    if case["nlines"] > 1:
        bump(res, "multi_line_molecules")
    try:
        top.preprocess()
    except OSError as err:
        if unresolved:
            bump(res, "expected_failures")
            res["nontrivial"] = True
        else:
            violation(res, "no-match-although-entry-exists", "preprocess raised %r but every parameter-less interaction has a "
                      "matching bonded type (exact, reversed or wildcard in either direction)" % str(err)[:160], w)
        return res
    except Exception as err:      # noqa
        if type(err).__name__ == "CaseTimeout":
            raise
        violation(res, "preprocess-crash:%s" % type(err).__name__, "%s: %s" % (type(err).__name__, str(err)[:200]), w)
        return res
    if unresolved:
        violation(res, "resolved-without-entry", "interaction %s with types %s has no matching bonded type but preprocess "
                  "did not fail" % (unresolved[0][:2], unresolved[0][2]), w)
        return res
    if len(top.molecules) != case["ninst"]:
        violation(res, "instance-count", "%d instances, [molecules] asks for %d" % (len(top.molecules), case["ninst"]), w)
        return res
    nres = 0
    for mi, mm in enumerate(top.molecules):
        bump(res, "instances_checked")
        mol = mm.molecule
        if mm.mol_name == "OTH":
            bump(res, "other_moleculetype_instances")
            have = {sec: len(v) for sec, v in mol.interactions.items() if v}
            if have != {"bonds": case["other"]["nbonds"]}:
                violation(res, "interactions-leak-into-other-moleculetype", "instance %d of OTH has interactions %s, its "
                          "definition has %d bonds only" % (mi, have, case["other"]["nbonds"]), w)
            continue
        for sec, lst in case["inter"].items():
            got = {}
            for it in mol.interactions.get(sec, []):
                got.setdefault(tuple(it.atoms), []).append([str(p) for p in it.parameters])
            extra = set(got) - {tuple(idx) for idx, _ in lst}
            if extra:
                violation(res, "unexpected-interaction:%s" % sec, "instance %d has %s interactions on atoms %s that the molecule "
                          "type does not define" % (mi, sec, sorted(extra)[:3]), w)
            for idx, (kind, val) in lst:
                g = sorted(got.get(tuple(idx), []))
                if kind == "explicit":
                    if g != [val]:
                        violation(res, "explicit-parameters-changed", "[%s] %s instance %d: %s, written %s" % (sec, idx, mi, g, val), w)
                    continue
                if kind == "macro1":
                    want = ["1"] + list(case["macros"][val])
                    bump(res, "macros_substituted")
                    bump(res, "macros_in_pairs")
                    if g != [want]:
                        violation(res, "macro-not-substituted:pairs", "[%s] %s instance %d: parameters %s, macro %s = %s" %
                                  (sec, idx, mi, g, val, case["macros"][val]), w)
                    continue
                if kind == "macro":
                    want = (["2"] + case["macros"][val]) if not val.startswith("gbf_") else list(case["macros"][val])
                    bump(res, "macros_substituted")
                    if val.startswith("gbf_"):
                        bump(res, "macros_with_function_type")
                    if val in case["macros"].get("_redefined", []):
                        bump(res, "macros_defined_twice")
                    if g != [want]:
                        violation(res, "macro-not-substituted", "[%s] %s instance %d: parameters %s, macro %s = %s" %
                                  (sec, idx, mi, g, val, case["macros"][val]), w)
                    continue
                r = exp[(sec, tuple(idx))]
                nres += 1
                bump(res, "interactions_resolved")
                tys = tuple(case["btypes"][case["at"][i]] for i in idx)
                if sec == "dihedrals":
                    bump(res, "dihedrals_resolved")
                    if r[0] > 0:
                        bump(res, "wildcard_matches")
                    for k in r[1]:
                        note(res, "masks_seen", "".join("X" if x == "X" else "t" for x in k))
                    if max(len(case["tables"][sec][k]) for k in r[1]) > 1:
                        bump(res, "multi_term_expansions")
                fwd_only = any(len(k) == len(tys) and all(x == "X" or x == a for x, a in zip(k, tys)) for k in r[1])
                if not fwd_only:
                    bump(res, "reverse_only_matches")
                ok = any(sorted(case["tables"][sec][k]) == g for k in r[1])
                if not ok:
                    all_keys = {tuple(map(tuple, sorted(case["tables"][sec][k]))): k for k in case["tables"][sec]}
                    src = all_keys.get(tuple(map(tuple, g)))
                    if not g:
                        key = "interaction-lost"
                    elif src is not None and sec == "dihedrals":
                        key = "not-least-wildcarded" if sum(x == "X" for x in src) > r[0] else "wrong-entry"
                    elif any(len(x) == 1 for x in g):
                        key = "left-without-parameters"
                    elif src is None and any(tuple(x) in {tuple(p) for k in r[1] for p in case["tables"][sec][k]} for x in g):
                        key = "multi-term-not-fully-expanded"
                    else:
                        key = "wrong-entry"
                    violation(res, "%s:%s%s" % (key, sec, "" if mi == 0 else ":later-instance"),
                              "[%s] atoms %s (types %s) instance %d got %s; admissible entries %s -> %s (entry used: %s)" %
                              (sec, idx, tys, mi, g, sorted(r[1]), [case["tables"][sec][k] for k in sorted(r[1])], src), w)
    res["nontrivial"] = nres > 0
    # ---- non-bonded table ----------------------------------------------------------------------------------
    nb = top.nonbond_params
    comb = case["comb"]

    def conv(v, w_):
        return v, w_

    for a, b in itertools.combinations_with_replacement(TYPES, 2):
        pair = frozenset((a, b))
        bump(res, "nonbond_pairs_checked")
        have = nb.get(pair)
        explicit = case["nbp"].get(pair)
        src = explicit if explicit is not None else (case["atypes"][a] if a == b else None)
        if explicit is not None:
            bump(res, "explicit_overrides")
        if src is None:
            if case["genpairs"] == "yes" and have is None:
                violation(res, "generated-pair-missing", "gen-pairs yes but no parameters for %s-%s" % (a, b), w)
            continue
        if have is None:
            violation(res, "nonbond-pair-missing", "no parameters for %s-%s" % (a, b), w)
            continue
        s, e = have["nb1"], have["nb2"]
        what = "explicit-nonbond-params-not-winning" if explicit is not None else "self-term-not-from-atomtype"
        if comb == 1:
            bump(res, "c6c12_conversions")
            c6, c12 = src
            if c6 == 0 and c12 == 0:
                bump(res, "zero_c6_c12_entries")
            if not (abs(4 * e * s ** 6 - c6) <= 1e-9 * abs(c6) and abs(4 * e * s ** 12 - c12) <= 1e-9 * abs(c12)):
                back = (4 * e * s ** 6, 4 * e * s ** 12)
                # which source would reproduce?
                alt = case["atypes"][a] if (a == b and explicit is not None) else None
                if alt is not None and abs(back[0] - alt[0]) <= 1e-9 * abs(alt[0]):
                    key = what
                else:
                    key = "sigma-epsilon-do-not-reproduce-c6-c12" if explicit is None or a != b else what
                violation(res, key, "%s-%s: (sigma, epsilon)=(%r, %r) give C6=%r C12=%r, table says C6=%r C12=%r" %
                          (a, b, s, e, back[0], back[1], c6, c12), w)
        else:
            if abs(s - src[0]) > 1e-12 or abs(e - src[1]) > 1e-12:
                violation(res, what, "%s-%s: (%r, %r), expected %s" % (a, b, s, e, src), w)
    # ---- symmetric in the pair: the table does not depend on which of the two types is defined first -----------
    if case["genpairs"] == "yes":
        tl = case["text"].split("\n")
        i0 = tl.index("[ atomtypes ]") + 1
        tl[i0:i0 + len(TYPES)] = tl[i0:i0 + len(TYPES)][::-1]
        path2 = os.path.join(workdir, "c9_swapped.top")
        with open(path2, "w") as fh:
            fh.write("\n".join(tl))
        try:
            top2 = Topology.from_gmx_topfile(name="x", path=path2)
            top2.preprocess()
            nb2 = top2.nonbond_params
        except Exception as err:      # noqa
            if type(err).__name__ == "CaseTimeout":
                raise
            violation(res, "atomtype-order-changes-outcome", "with the [ atomtypes ] lines in reverse order: %s: %s" %
                      (type(err).__name__, str(err)[:150]), w)
            return res
        bump(res, "tables_compared_with_atomtypes_reordered")
        for a, b in itertools.combinations(TYPES, 2):
            pair = frozenset((a, b))
            x, y = nb.get(pair), nb2.get(pair)
            if (x is None) != (y is None):
                violation(res, "pair-parameters-not-symmetric", "%s-%s present=%s, with the types defined in the other "
                          "order present=%s" % (a, b, x is not None, y is not None), w)
                break
            if x is None:
                continue
            bump(res, "generated_pairs_checked_for_symmetry")
            if any(abs(x[k] - y[k]) > 1e-9 * max(abs(x[k]), abs(y[k]), 1e-300) for k in ("nb1", "nb2")):
                violation(res, "pair-parameters-not-symmetric", "%s-%s: (%r, %r), but (%r, %r) when the two atom types are "
                          "defined in the other order (combination rule %d)" % (a, b, x["nb1"], x["nb2"], y["nb1"], y["nb2"], comb), w)
                break
    return res
