"""C11 - generated .itp files are written and re-read to the same molecule."""
import os
import shlex
from collections import Counter
from pathlib import Path

from ..core import new_result, bump, violation, sig_of, note, REPO
from ..gen import paramcase
from ..monitors import pipeline
from ..oracle import refparams
from . import _params_common as PC
from .C10 import top_for

PID = "C11"
LEVEL = "exploration"
RULE = ("seeded force fields x residue graphs (same generator as C01/C02, all sections incl. #ifdef/#ifndef guarded "
        "ones) and the library commands under polyply/tests/test_data/library_tests that use -seq: (1) stage "
        "wrappers decide 'passed mapping and link application'; the file must then exist; (2) the file is re-read "
        "with Topology.from_gmx_topfile and MetaMolecule.from_itp and compared atom by atom / interaction by "
        "interaction (parameters, guards) with the molecule captured at the stage boundary; (3) with no missing link "
        "the recovered residue graph must equal the requested one on (resid, resname) and resid pairs; (4) a sample "
        "of connected outputs is consumed by gen_coords. non-trivial = written file with >= 2 residues; "
        "distinct = hash(files, graph)"
        " Later strata: deferred writer's temporary directory on another file system, force fields whose only modification has another name, seeded sequences over the shipped libraries (requested vs recovered residues), removal links inside the residue-graph clause.")
ASSUMPTIONS = ["interaction atom tuples compared up to reversal; impropers are written under [ dihedrals ]",
               "library stratum: parser trusted, only write / re-read / consume clauses are checked there"]
CASE_TIMEOUT = 180
WALL = {"quick": 900, "thorough": 7200}
REQUIRED = {"files_reread": 500, "atoms_compared": 5000, "interactions_compared": 5000, "conditional_interactions": 50,
            "residue_graphs_compared": 100, "gen_coords_consumed": 8, "library_cases": 5,
            "with_modification_definitions": 50, "library_sequence_cases": 100}


def plan(tier, seed):
    n = 2500 if tier == "quick" else 30000
    cids = [["gen", i] for i in range(n)]
    cids += [["lib", i] for i in range(len(library_commands()))]
    cids += [["libseq", i] for i in range(n // 8)]
    return cids


_LIB = None


def library_commands():
    global _LIB
    if _LIB is None:
        root = os.path.join(REPO, "polyply", "tests", "test_data", "library_tests")
        out = []
        for lib in sorted(os.listdir(root)):
            for pol in sorted(os.listdir(os.path.join(root, lib))):
                cmd = os.path.join(root, lib, pol, "polyply", "command")
                if os.path.exists(cmd):
                    text = open(cmd).read().strip()
                    if text and "-seqf" not in text:      # old-format JSON files need networkx < 3.4
                        out.append((lib, pol, text, os.path.dirname(cmd)))
        _LIB = out
    return _LIB


def setup():
    PC.setup()


def canon_snapshot(snap):
    atoms = [(a["name"], a["atype"], a["resid"], a["resname"],
              None if a["charge"] is None else round(float(a["charge"]), 9),
              None if a["mass"] is None else round(float(a["mass"]), 9)) for a in snap["atoms"]]
    inter = Counter()
    ncond = 0
    for sec, cnt in snap["inter"].items():
        fsec = refparams.file_sec(sec)
        for (ats, params, cond, _ver), n in cnt.items():
            inter[(fsec, refparams.canon_atoms(sec, ats), params, cond)] += n
            if cond:
                ncond += n
    return atoms, inter, ncond


def reread(workdir, itp_name, molname):
    from polyply.src.topology import Topology
    with open(os.path.join(workdir, "rr.top"), "w") as fh:
        fh.write(top_for(itp_name, molname))
    top = Topology.from_gmx_topfile(name="x", path=os.path.join(workdir, "rr.top"))
    return top


def compare_reread(res, built, meta_re, label, w):
    a1, i1, ncond = canon_snapshot(built)
    snap2 = pipeline.snapshot_molecule(meta_re.molecule)
    a2, i2, _ = canon_snapshot(snap2)
    bump(res, "atoms_compared", len(a1))
    bump(res, "interactions_compared", sum(i1.values()))
    bump(res, "conditional_interactions", ncond)
    if len(a1) != len(a2):
        violation(res, "reread-atom-count:" + label, "built molecule has %d atoms, re-read one %d" % (len(a1), len(a2)), w())
        return
    for k, (x, y) in enumerate(zip(a1, a2)):
        if x != y:
            violation(res, "reread-atom-differs:" + label, "atom %d built %s re-read %s" % (k + 1, x, y), w())
            break
    if i1 != i2:
        miss = list((i1 - i2).items())[:3]
        extra = list((i2 - i1).items())[:3]
        kind = "guard" if {k[:3] for k, _ in miss} & {k[:3] for k, _ in extra} else "interaction"
        violation(res, "reread-%s-differs:%s" % (kind, label), "only in built molecule: %s; only in re-read: %s" %
                  (miss, extra), w())


def run_case(cid, rng, workdir):
    res = new_result()
    if cid[0] == "lib":
        return run_lib(cid, rng, workdir, res)
    if cid[0] == "libseq":
        return run_libseq(cid, rng, workdir, res)
    case = paramcase.build(rng, profile="full", nmin=1, nmax=7, max_links=4,
                           link_opts={"p_remove": 0.08, "p_cond": 0.25, "p_edge": 0.15, "linktypes": True, "p_log": 0.25})
    if rng.random() < 0.25:
        # node keys that are not 0..n-1 and a force field that defines (unused) modifications
        from .C13 import relabel
        case["graph"], mode = relabel(rng, case["graph"])
        case["descr"]["node_keys"] = mode
        if any(n == "case.ff" for n, _ in case["files"]):
            mods = "[ modification ]\nN-ter\n[ atoms ]\nA0 {\"resname\": \"RA\", \"replace\": {\"charge\": 1.0}}\n" \
                   "[ modification ]\nC-ter\n[ atoms ]\nA0 {\"resname\": \"RA\", \"replace\": {\"charge\": -1.0}}\n"
            if rng.random() < 0.4:
                # a force field whose only modification has another name (a capping group of the user's own)
                mods = "[ modification ]\nCAP\n[ atoms ]\nA0 {\"resname\": \"RA\", \"replace\": {\"charge\": 0.5}}\n"
                bump(res, "with_modification_definitions_of_other_names")
            case["files"] = [(n, t + mods if n == "case.ff" else t) for n, t in case["files"]]
            bump(res, "with_modification_definitions")
    # in a third of the runs the deferred writer keeps its temporary file on another file system than the output
    # directory (TMPDIR on tmpfs, output on disk): the move is then a copy of whatever has reached the file
    from vermouth.file_writer import DeferredFileWriter
    from .C20 import other_fs_tmpdir
    tmpd = other_fs_tmpdir(workdir) if rng.random() < 0.35 else None
    DeferredFileWriter()._tmpdir = tmpd
    if tmpd:
        bump(res, "temp_dir_on_other_filesystem")
    try:
        ev = PC.evaluate(case, workdir)
    finally:
        DeferredFileWriter()._tmpdir = None
        if tmpd:
            import shutil
            shutil.rmtree(tmpd, ignore_errors=True)
    res["sig"] = sig_of([case["files"], case["graph"]])
    res["sample"] = case["descr"]
    run = ev["run"]
    wcache = []

    def w():
        if not wcache:
            wcache.append(PC.witness(case))
        return wcache[0]

    passed_links = ("links", "exit") in run["events"]
    if run["status"] != "ok":
        if passed_links and os.path.exists(ev["out"]):
            # the program stopped *after* writing its output (e.g. while printing log messages): the write clause
            # holds; the file is still compared below
            bump(res, "raised_after_writing")
            note(res, "rejections", "after writing: " + run["error"][:90])
            ev["obs"] = __import__("pvmon.oracle.itp_min", fromlist=["x"]).read_itp(ev["out"])
        else:
            res["status"] = "rejected"
            if passed_links and ev["ref"] is None and "max() iterable argument is empty" in (run.get("error") or ""):
                # the links removed every atom of a residue: no molecule is left to be written for that residue graph (the
                # reference calls such inputs outside its language, as in C02 / C13)
                bump(res, "residue_without_atoms_left")
            elif passed_links:
                violation(res, "no-file-after-link-stage:%s" % run.get("exc_type"),
                          "input passed mapping and link application but gen_params raised %s and wrote no file" % run["error"], w())
            return res
    if not os.path.exists(ev["out"]):
        violation(res, "no-file-after-success", "gen_params returned but %s does not exist" % ev["out"], w())
        return res
    built = run["stages"].get("mods") or run["stages"].get("links")
    if not built or "atoms" not in built:
        res["status"] = "error"
        res["error"] = "stage snapshot missing"
        return res
    nres = len(case["graph"]["nodes"])
    res["nontrivial"] = nres >= 2
    note(res, "layouts", case["layout"])
    try:
        top = reread(workdir, "out.itp", "POLY")
    except Exception as err:
        violation(res, "reread-fails:%s" % type(err).__name__, "Topology.from_gmx_topfile rejects the written file: %s" %
                  str(err)[:200], w())
        return res
    bump(res, "files_reread")
    meta_re = top.molecules[0]
    compare_reread(res, built, meta_re, "topology", w)
    # second reader
    try:
        import vermouth.forcefield
        from polyply.src.meta_molecule import MetaMolecule
        ffield = vermouth.forcefield.ForceField(name="rr")
        meta2 = MetaMolecule.from_itp(ffield, os.path.join(workdir, "out.itp"), "POLY")
        compare_reread(res, built, meta2, "from_itp", w)
        # reading the same file again into the same force field (a regenerated molecule under the same name) must give
        # the same residue graph
        meta3 = MetaMolecule.from_itp(ffield, os.path.join(workdir, "out.itp"), "POLY")
        e2 = {frozenset((meta2.nodes[a]["resid"], meta2.nodes[b]["resid"])) for a, b in meta2.edges}
        e3 = {frozenset((meta3.nodes[a]["resid"], meta3.nodes[b]["resid"])) for a, b in meta3.edges}
        bump(res, "second_reads_into_same_force_field")
        if e2 != e3 or len(meta2.molecule.edges) != len(meta3.molecule.edges):
            violation(res, "second-read-into-same-force-field-differs", "first read: %d residue edges / %d atom edges, second read "
                      "of the same file into the same force field: %d / %d" %
                      (len(e2), len(meta2.molecule.edges), len(e3), len(meta3.molecule.edges)), w())
    except Exception as err:
        violation(res, "reread-fails:from_itp:%s" % type(err).__name__, "MetaMolecule.from_itp rejects the file: %s" %
                  str(err)[:200], w())
    # residue graph
    if not run["missing"] and ev["ref"] is not None and not refparams.missing_links(ev["ref"]):
        ref = ev["ref"]
        # links realised by edges that are not bonds/constraints (angle-only links) do not survive in the file
        # ... which is decided on what the definitions say (the reference), not on what happens to be in the file
        file_adj = set()
        rid = {a["idx"]: a["resid"] for a in ref["atoms"]}
        for sec in ("bonds", "constraints"):
            for (ats, _p, cond), cnt in ref["inter"].get(sec, {}).items():
                if cnt and rid[ats[0]] != rid[ats[1]] and not cond and not (set(ats) & ref["removed"]):
                    file_adj.add(frozenset((rid[ats[0]], rid[ats[1]])))
        want_nodes = sorted((n["resid"], _resname_of(ref, n["key"])) for n in case["graph"]["nodes"])
        want_edges = {frozenset((ref["by_key"][a]["resid"], ref["by_key"][b]["resid"])) for a, b, _ in case["graph"]["edges"]}
        if want_edges <= file_adj:
            bump(res, "residue_graphs_compared")
            for label, mm in (("topology", meta_re),):
                got_nodes = sorted((mm.nodes[n]["resid"], mm.nodes[n]["resname"]) for n in mm.nodes)
                got_edges = {frozenset((mm.nodes[a]["resid"], mm.nodes[b]["resid"])) for a, b in mm.edges}
                if got_nodes != want_nodes:
                    violation(res, "residue-graph-nodes-differ", "recovered residues %s, requested %s" % (got_nodes, want_nodes), w())
                elif got_edges != want_edges:
                    violation(res, "residue-graph-edges-differ", "recovered residue edges %s, requested %s" %
                              (sorted(map(sorted, got_edges)), sorted(map(sorted, want_edges))), w())
            # gen_coords consumes it
            # (improper dihedrals with a non-zero reference are left out: template generation retries a deterministic
            #  layout up to 50000 times when the initial sign is wrong, which is slow but not a property matter)
            has_improper = any(p and p[0] == "2" for (_a, p, _c) in ev["obs"]["inter"].get("dihedrals", {}))
            if rng.random() < 0.06 and len(ev["obs"]["atoms"]) <= 25 and not has_improper:
                _consume(res, workdir, "rr.top", w)
    return res


def _resname_of(ref, key):
    for a in ref["atoms"]:
        if a["res"] == key:
            return a["resname"]
    return None


def _consume(res, workdir, top, w):
    from polyply import gen_coords
    from vermouth.file_writer import DeferredFileWriter
    import numpy as np
    outp = Path(workdir) / "consume.gro"
    try:
        gen_coords(toppath=Path(workdir) / top, outpath=outp, name="x", box=np.array([9.0, 9.0, 9.0]))
        bump(res, "gen_coords_consumed")
        if not outp.exists():
            violation(res, "gen-coords-no-output", "gen_coords returned without writing", w())
    except Exception as err:      # noqa
        if type(err).__name__ == "CaseTimeout":
            raise
        try:
            DeferredFileWriter().close()
        except Exception:
            pass
        violation(res, "gen-coords-rejects-gen-params-output:%s" % type(err).__name__,
                  "gen_coords raised %r on a file gen_params produced (no link missing)" % (err,), w())


def run_lib(cid, rng, workdir, res):
    """library stratum: the package's own library definitions (dependency-version clause)"""
    lib, pol, text, cmddir = library_commands()[cid[1]]
    toks = shlex.split(text)[2:]
    args = {"name": "polymer", "inpath": [], "lib": None, "seq": None, "seq_file": None, "dsdna": False}
    i = 0
    while i < len(toks):
        t = toks[i]
        vals = []
        j = i + 1
        while j < len(toks) and not toks[j].startswith("-"):
            vals.append(toks[j])
            j += 1
        if t == "-lib":
            args["lib"] = vals
        elif t == "-seq":
            args["seq"] = vals
        elif t == "-name":
            args["name"] = vals[0]
        elif t == "-f":
            args["inpath"] = [Path(os.path.normpath(os.path.join(cmddir, v))) for v in vals]
        elif t == "-dsdna":
            args["dsdna"] = True
        i = j
    out = Path(workdir) / "lib.itp"
    res["sig"] = sig_of([lib, pol, text])
    res["sample"] = {"library": lib, "polymer": pol, "command": text}
    run = pipeline.run_gen_params(outpath=out, **args)

    def w():
        return {"command": text}
    passed_links = ("links", "exit") in run["events"]
    if run["status"] != "ok":
        if passed_links:
            violation(res, "no-file-after-link-stage:library:%s" % run.get("exc_type"),
                      "%s/%s passed mapping and link application but gen_params raised %s" % (lib, pol, run["error"]), w())
        else:
            res["status"] = "rejected"
            bump(res, "library_rejected")
        return res
    bump(res, "library_cases")
    res["nontrivial"] = True
    if not out.exists():
        violation(res, "no-file-after-success:library", "no output for %s/%s" % (lib, pol), w())
        return res
    built = run["stages"].get("mods") or run["stages"].get("links")
    try:
        import vermouth.forcefield
        from polyply.src.meta_molecule import MetaMolecule
        ffield = vermouth.forcefield.ForceField(name="rr")
        meta2 = MetaMolecule.from_itp(ffield, str(out), args["name"])
        bump(res, "files_reread")
        compare_reread(res, built, meta2, "library", w)
        if not run["missing"]:
            req = run["stages"].get("links:meta")
            got_nodes = sorted((meta2.nodes[n]["resid"], meta2.nodes[n]["resname"]) for n in meta2.nodes)
            want_nodes = sorted((req.nodes[n]["resid"], req.nodes[n]["resname"]) for n in req.nodes)
            got_edges = {frozenset((meta2.nodes[a]["resid"], meta2.nodes[b]["resid"])) for a, b in meta2.edges}
            want_edges = {frozenset((req.nodes[a]["resid"], req.nodes[b]["resid"])) for a, b in req.edges}
            bump(res, "residue_graphs_compared")
            if got_nodes != want_nodes or got_edges != want_edges:
                violation(res, "residue-graph-differs:library", "%s/%s: recovered residue graph differs from the requested "
                          "one (nodes equal: %s, edges equal: %s)" % (lib, pol, got_nodes == want_nodes, got_edges == want_edges), w())
    except Exception as err:
        violation(res, "reread-fails:library:%s" % type(err).__name__, "%s/%s: %s" % (lib, pol, str(err)[:200]), w())
    return res


def run_libseq(cid, rng, workdir, res):
    """seeded residue graphs over the blocks of the shipped libraries: the written file must give the requested
    residues back (same ids and names) and, when no link is missing, the same residue graph"""
    import vermouth.forcefield
    from polyply.src.meta_molecule import MetaMolecule
    if rng.random() < 0.3:
        case = PC.build_library_case(rng, nmin=1, lib="martini3", prefer=PC.PROTEIN | {"HIH"})
    else:
        case = PC.build_library_case(rng, nmin=1)
    ev = PC.evaluate_library(case, workdir)
    run = ev["run"]
    res["sig"] = sig_of([case["lib"], case["graph"]])
    res["sample"] = case["descr"]
    w = PC.witness(case)
    passed_links = ("links", "exit") in run["events"]
    if run["status"] != "ok":
        if passed_links:
            violation(res, "no-file-after-link-stage:library:%s" % run.get("exc_type"),
                      "passed mapping and link application but gen_params raised %s" % run["error"], w)
        else:
            res["status"] = "rejected"
        return res
    bump(res, "library_sequence_cases")
    note(res, "libraries", case["lib"])
    res["nontrivial"] = True
    try:
        ffield = vermouth.forcefield.ForceField(name="rr")
        meta2 = MetaMolecule.from_itp(ffield, ev["out"], "POLY")
    except Exception as err:      # noqa
        if type(err).__name__ == "CaseTimeout":
            raise
        violation(res, "reread-fails:library:%s" % type(err).__name__, str(err)[:200], w)
        return res
    bump(res, "files_reread")
    want_nodes = sorted((n["resid"], n["resname"]) for n in case["graph"]["nodes"])
    got_nodes = sorted((meta2.nodes[n]["resid"], meta2.nodes[n]["resname"]) for n in meta2.nodes)
    if got_nodes != want_nodes:
        violation(res, "residues-differ:library", "residues recovered from the file %s, requested %s" %
                  (got_nodes[:8], want_nodes[:8]), w)
        return res
    if not run["missing"]:
        by_key = {n["key"]: n["resid"] for n in case["graph"]["nodes"]}
        want_edges = {frozenset((by_key[a], by_key[b])) for a, b, _ in case["graph"]["edges"]}
        got_edges = {frozenset((meta2.nodes[a]["resid"], meta2.nodes[b]["resid"])) for a, b in meta2.edges}
        # as in the generated stratum: an edge realised only by an angle / improper link (no bond between the two
        # residues, e.g. HEA next to PE in 2016H66) does not survive in a file; those cases are not judged
        file_adj = set()
        rid = {a["idx"]: a["resid"] for a in ev["obs"]["atoms"]}
        for sec in ("bonds", "constraints"):
            for (ats, _p, cond) in ev["obs"]["inter"].get(sec, {}):
                if rid[ats[0]] != rid[ats[1]] and not cond:
                    file_adj.add(frozenset((rid[ats[0]], rid[ats[1]])))
        if not want_edges <= file_adj:
            bump(res, "library_edges_realised_without_bond")
            return res
        bump(res, "residue_graphs_compared")
        if got_edges != want_edges:
            violation(res, "residue-graph-differs:library", "edges recovered %s, requested %s" %
                      (sorted(map(sorted, got_edges))[:8], sorted(map(sorted, want_edges))[:8]), w)
    return res
