"""C04 - supplied coordinates are preserved; only missing parts are built."""
import os
from pathlib import Path

import numpy as np

from ..core import new_result, bump, violation, sig_of, note
from ..gen import topo as T
from . import _coords_common as CC
from . import C03

PID = "C04"
LEVEL = "exploration"
RULE = ("seeded systems whose residues are split into given (-c), centre-only (-mc), missing (chain prefixes, whole "
        "molecules) and named-for-rebuilding (-res) parts, plus systems with an ignored molecule type (-ign) placed "
        "first / in the middle / last / repeatedly in [molecules]; the supplied structures come from a previous real "
        "build cut by the generator, which mirrors 'coordinates are consumed residue by residue'. Natural and injected "
        "failed attempts (RandomWalk.run_molecule forced to fail k times) precede the successful one. Monitors: "
        "input/output .gro differential per atom, centre-of-geometry of centre-only residues, the set of residues "
        "handed to NonBondEngine.add_positions must equal the missing/named set, and after every remove_positions "
        "every supplied residue must still be in the engine at its supplied point. non-trivial = run with >= 1 "
        "supplied and >= 1 generated residue; distinct = hash(topology, input structure, options)"
        ' Later strata: PDB inputs, -c together with -mc, -lig on hosts with supplied atoms / centres, -start (index and name form) on supplied residues, -ign with a density box and a structure without box; a molecule that has coordinates is never started on the grid; molecules whose residues are not listed atom after atom (a capping atom listed last, all backbone atoms before the side chains, any order) with all / some molecules / all but the residues named by -res supplied.')
ASSUMPTIONS = ["supplied coordinates are written with 3 decimals and must be reproduced digit for digit (|out - in| < 5e-8)",
               "centre-only residues: centre of geometry of the 3-decimal output atoms within 6e-4 nm of the given centre (C06 checks the exact in-memory value)",
               "ignored molecules get their coordinates from the input structure (they cannot be written otherwise)"]
CASE_TIMEOUT = 240
WALL = {"quick": 1200, "thorough": 10800}
MAX_TIMEOUTS = {"quick": 1, "thorough": 20}
REQUIRED = {"supplied_atoms_checked": 2000, "centre_only_residues": 100, "generated_residues": 300,
            "prefix_runs": 20, "build_res_runs": 15, "ignore_runs": 25, "failed_attempts_seen": 40,
            "supplied_checks_after_removal": 200, "ignore_positions": 3,
            "meta_build_res_runs": 8, "injected_step_schedules": 30, "atoms_and_centres_runs": 20, "ligand_runs_with_supplied_hosts": 30, "ignore_runs_with_density_box": 15, "molecules_with_coordinates_continued": 200,
            "pdb_inputs_with_three_or_more_molecules": 10, "scattered_runs": 60, "scattered_supplied_atoms_checked": 600,
            "scattered_runs_with_rebuilt_residues": 15, "complete_structure_with_residues_named_for_rebuilding": 15}


def plan(tier, seed):
    n = 500 if tier == "quick" else 5000
    return [["split", i] for i in range(n)] + [["ign", i] for i in range(n // 3)] + [["lig", i] for i in range(n // 5)] + \
        [["scattered", i] for i in range(n // 4)]


def setup():
    CC.attach_all()


def run_case(cid, rng, workdir):
    res = new_result()
    if cid[0] == "ign":
        return run_ignore(cid, rng, workdir, res)
    if cid[0] == "scattered":
        return run_scattered(cid, rng, workdir, res)
    if cid[0] == "lig":
        # hosts with supplied atoms or centres, ligands (-lig) without coordinates: the only residues to generate are the
        # ligands; the residue a ligand is attached to keeps what was supplied for it
        sysd = T.gen_system(rng, max_types=1, min_res=3, max_res=6, max_count=1, shapes=("lin", "lin", "tree"))
        host = sysd["moltypes"][0]
        nh = rng.randint(1, 3)
        tn = sorted(sysd["atypes"])[0]
        sysd["residues"]["LIG"] = {"name": "LIG", "kind": "single", "atoms": [{"name": "L0", "atype": tn, "charge": 0.0, "mass": None}],
                                   "bonds": [], "angles": [], "vs": []}
        sysd["moltypes"].append({"name": "LG", "res": ["LIG"], "edges": [], "links": [], "shape": "lin", "resids": [1]})
        sysd["molecules"] = [(host["name"], nh), ("LG", nh)]
        text = T.render_top(sysd)
        with open(os.path.join(workdir, "s.top"), "w") as fh:
            fh.write(text)
        kw, info = C03.make_options(rng, sysd, workdir, res, allow=("c_prefix", "mc"), prefix_groups=nh * len(host["res"]))
        if kw is None:
            res["status"] = "rejected"
            return res
        kw["ligands"] = []
        for h in range(nh):
            ri = rng.randrange(len(host["res"]))
            kw["ligands"].append(["%s#%d-%s#%d" % (host["name"], h, T.shown(sysd, host["res"][ri]), host["resids"][ri]),
                                  "LG#%d" % (nh + h)])
        kw.pop("box", None)
        bump(res, "ligand_runs_with_supplied_hosts")
    else:
        sysd = T.gen_system(rng, min_res=2)
        text = T.render_top(sysd)
        with open(os.path.join(workdir, "s.top"), "w") as fh:
            fh.write(text)
        kw, info = C03.make_options(rng, sysd, workdir, res, allow=("c_full", "c_prefix", "c_prefix", "c_res", "c_res", "mc", "mc_res", "c_mc"))
        if kw is None:
            res["status"] = "rejected"
            return res
    ctx_kw = {}
    c = rng.random()
    if c < 0.4:
        ctx_kw["fail_attempts_left"] = rng.randint(1, 3)
        if rng.random() < 0.4:
            kw["maxiter"] = rng.choice([1, 2])
    elif c < 0.75:
        # step-level failures: rewinds that span supplied residues
        kw["nrewind"] = rng.choice([2, 3, 4, 5])
        ctx_kw["step_schedule"] = iter([rng.random() < 0.75 for _ in range(rng.randint(6, 30))])
        bump(res, "injected_step_schedules")
    outp = Path(workdir) / "o.gro"
    run, ctx = CC.run_gen_coords(ctx_kw=ctx_kw, toppath=Path(workdir) / "s.top", outpath=outp, name="x", **kw)
    opts = {k: (v.tolist() if hasattr(v, "tolist") else str(v) if isinstance(v, (Path, list)) else v) for k, v in kw.items()}
    res["sample"] = {"system": T.describe(sysd), "options": opts, "mode": info["mode"],
                     "injected_failed_attempts": ctx_kw.get("fail_attempts_left", 0)}
    w = {"top": text, "options": opts, "injected_failed_attempts": ctx_kw.get("fail_attempts_left", 0)}
    for f in ("in.gro", "in_mc.gro"):
        p = os.path.join(workdir, f)
        if os.path.exists(p):
            w[f] = open(p).read()
    res["sig"] = sig_of([text, opts, w.get("in.gro"), w.get("in_mc.gro")])
    if run["status"] != "ok":
        res["status"] = "rejected"
        note(res, "rejections", "%s: %s" % (info["mode"], run["error"][:110]))
        if run["exc_type"] not in ("OSError", "IOError"):
            violation(res, "crash:%s:%s" % (info["mode"], run["exc_type"]), "gen_coords stopped with %s\n%s" %
                      (run["error"], run.get("tb", "")[-500:]), w)
        return res
    gro = T.read_gro(str(outp))
    groups = C03.split_rows(sysd, gro)
    sup_keys = {(g["mol"], g["res"]): g for g in info["supplied"]}
    cen_keys = {(g["mol"], g["res"]): c for g, c in info["centres"]}
    if info.get("c_part"):
        # residues given with all their atoms (-c) and, in the same run, with their centre (-mc): the atoms were given
        for g in info["c_part"]:
            sup_keys[(g["mol"], g["res"])] = g
            cen_keys.pop((g["mol"], g["res"]), None)
    ngen = 0
    bump(res, {"c_prefix": "prefix_runs", "c_res": "build_res_runs", "mc": "meta_runs", "c_full": "full_runs",
               "mc_res": "meta_build_res_runs", "c_mc": "atoms_and_centres_runs"}[info["mode"]])
    for g in groups:
        key = (g["mol"], g["res"])
        if key in sup_keys:
            for r_out, r_in in zip(g["rows"], sup_keys[key]["rows"]):
                bump(res, "supplied_atoms_checked")
                if any(abs(a - b) > 5e-8 for a, b in zip(r_out["xyz"], r_in["xyz"])):
                    violation(res, "supplied-atom-moved:%s" % info["mode"],
                              "atom %s of residue %s%d (molecule %d) given at %s is written at %s" %
                              (r_out["name"], g["resname"], g["res"] + 1, g["mol"], r_in["xyz"], r_out["xyz"]), w)
                    break
        elif key in cen_keys:
            bump(res, "centre_only_residues")
            c = np.mean([r["xyz"] for r in g["rows"]], axis=0)
            if np.max(np.abs(c - np.array(cen_keys[key]))) > 6e-4:      # every coordinate is rounded to 3 decimals
                violation(res, "centre-only-residue-not-around-centre",
                          "residue %s%d (molecule %d): centre of geometry of the output atoms %s, given centre %s" %
                          (g["resname"], g["res"] + 1, g["mol"], c.tolist(), cen_keys[key]), w)
        else:
            ngen += 1
    bump(res, "generated_residues", ngen)
    # only missing / named residues may be generated: compare with what reached the engine
    placed = {(mi, nd) for mi, nd, *_ in ctx["placements"]} | {(mi, nd) for mi, nd, _ in ctx["starts"]}
    topo = ctx["topology"]
    missing = set()
    for g in groups:
        if (g["mol"], g["res"]) not in sup_keys and (g["mol"], g["res"]) not in cen_keys:
            missing.add((g["mol"], g["res"]))
    if topo is not None:
        placed_res = set()
        for mi, nd in placed:
            if nd not in topo.molecules[mi].nodes and "ligands" in kw:
                # a ligand residue is built as a temporary residue of its host and handed back afterwards:
                # host h carries ligand molecule (number of hosts + h)
                placed_res.add((len(kw["ligands"]) + mi, 0))
                bump(res, "ligand_residues_placed")
                continue
            placed_res.add((mi, topo.molecules[mi].nodes[nd]["resid"] - 1))
        extra = placed_res - missing
        lack = missing - placed_res
        if extra:
            violation(res, "generated-a-supplied-residue", "residues %s were placed by the random walk although their "
                      "coordinates were supplied" % sorted(extra)[:5], w)
        if lack:
            violation(res, "missing-residue-not-generated", "residues %s had no coordinates and were never placed" %
                      sorted(lack)[:5], w)
    # a molecule that comes with coordinates for some of its residues is continued from them: only a molecule without
    # any coordinates is started on a point of the grid
    have = {}
    for g in groups:
        if (g["mol"], g["res"]) in sup_keys or (g["mol"], g["res"]) in cen_keys:
            have.setdefault(g["mol"], []).append(g["res"])
    for mi, nd, _p in ctx["starts"]:
        if mi in have and "start" not in kw and "ligands" not in kw:
            bump(res, "grid_starts_in_molecules_with_coordinates")
            violation(res, "started-on-the-grid-although-the-molecule-has-coordinates",
                      "residue node %s of molecule %d was put on a start-grid point although residues %s of that molecule "
                      "have supplied coordinates (it is then not grown from a positioned neighbour)" %
                      (nd, mi, [r + 1 for r in have[mi]][:6]), w)
            break
    bump(res, "molecules_with_coordinates_continued", len(have))
    bump(res, "failed_attempts_seen", len(ctx["failed_attempts"]))
    bump(res, "supplied_checks_after_removal", ctx["stats"].get("supplied_checks_after_removal", 0))
    for (mi, nd, p, q) in ctx["after_failed"][:1]:
        violation(res, "failed-attempt-alters-supplied", "after a discarded attempt the supplied residue %s of molecule %d "
                  "is at %s in the engine instead of %s" % (nd, mi, q, p), w)
    res["nontrivial"] = bool(ngen and (sup_keys or cen_keys))
    return res


def run_ignore(cid, rng, workdir, res):
    sysd = T.gen_system(rng, min_res=1, max_types=2)
    # a dedicated molecule type that will be ignored, with its own residue name
    tn = sorted(sysd["atypes"])[0]
    wname = rng.choice(["WAT", "SOL", "NA"])          # common solvent / ion residue names included
    sysd["residues"][wname] = {"name": wname, "kind": "single", "atoms": [{"name": "W", "atype": tn, "charge": 0.0, "mass": None}],
                               "bonds": [], "angles": [], "vs": []}
    if rng.random() < 0.4:
        sysd["residues"][wname]["atoms"].append({"name": "W2", "atype": tn, "charge": 0.0, "mass": None})
        sysd["residues"][wname]["bonds"].append((0, 1, 0.3, 5000))
    sysd["moltypes"].append({"name": "SOL", "res": [wname], "edges": [], "links": [], "shape": "lin"})
    where = rng.choice(["first", "middle", "last", "repeated", "repeated"])
    mols = [(n, c) for n, c in sysd["molecules"] if n != "SOL"]
    cnt = rng.randint(1, 4)
    if where == "first":
        mols = [("SOL", cnt)] + mols
    elif where == "last":
        mols = mols + [("SOL", cnt)]
    elif where == "middle":
        if len(mols) < 2:
            mols = mols + [mols[0]]
        mols = mols[:1] + [("SOL", cnt)] + mols[1:]
    else:
        mols = [("SOL", cnt)] + mols + [("SOL", rng.randint(1, 3))]
        if rng.random() < 0.5 and len(mols) > 2:
            mols.insert(2, ("SOL", 1))
    sysd["molecules"] = mols
    text = T.render_top(sysd)
    with open(os.path.join(workdir, "s.top"), "w") as fh:
        fh.write(text)
    b = round(rng.uniform(4.0, 6.0), 3)
    box = [b, b, b]
    groups = []
    rows = []
    for mi, mt in enumerate(T.expand(sysd)):
        if mt["name"] != "SOL":
            continue
        c = np.array([round(rng.uniform(0.3, b - 0.3), 3) for _ in range(3)])
        g = {"mol": mi, "rows": []}
        for j, a in enumerate(sysd["residues"][wname]["atoms"]):
            xyz = tuple(round(float(x), 3) for x in (c + np.array([0.3 * j, 0, 0])))
            if xyz[0] > b:
                xyz = (round(b - 0.01, 3), xyz[1], xyz[2])
            rows.append({"resid": 1, "resname": wname, "name": a["name"], "xyz": xyz})
            g["rows"].append(xyz)
        groups.append(g)
    T.write_gro(os.path.join(workdir, "in.gro"), rows, box)
    others = sorted({rn for mt in sysd["moltypes"] if mt["name"] != "SOL" for rn in mt["res"]})
    kw = {"coordpath": Path(workdir) / "in.gro", "ignore": ["SOL"], "build_res": others}
    want_edge = None
    if rng.random() < 0.25:
        # the ignored molecules come from a structure that defines no box (PDB without CRYST1) and the box is asked for by
        # density: it is the cube for the mass of the whole system, ignored molecules included
        last = None
        for r_, g_ in zip(rows, [g for g in groups for _x in g["rows"]]):
            if last is not None and g_ is not last[1]:
                last[0]["ter"] = True
            last = (r_, g_)
        rows[-1]["ter"] = True
        T.write_pdb(os.path.join(workdir, "in.pdb"), rows, box, cryst=False)
        kw["coordpath"] = Path(workdir) / "in.pdb"
        kw["density"] = T.total_mass(sysd) * 1.6605410 / b ** 3
        want_edge = b
        bump(res, "ignore_runs_with_density_box")
    ctx_kw = {}
    if rng.random() < 0.4:
        ctx_kw["fail_attempts_left"] = rng.randint(1, 2)
    outp = Path(workdir) / "o.gro"
    run, ctx = CC.run_gen_coords(ctx_kw=ctx_kw, toppath=Path(workdir) / "s.top", outpath=outp, name="x", **kw)
    w = {"top": text, "in.gro": open(os.path.join(workdir, "in.gro")).read(), "options": {"ignore": ["SOL"], "build_res": others}}
    res["sample"] = {"system": T.describe(sysd), "ignored_position": where, "molecules": mols}
    res["sig"] = sig_of([text, w["in.gro"]])
    bump(res, "ignore_runs")
    note(res, "ignore_positions", where)
    if run["status"] != "ok":
        res["status"] = "rejected"
        violation(res, "ignored-molecule-disturbs-building:%s" % run["exc_type"],
                  "with -ign SOL (%s in [molecules]) gen_coords stopped with %s\n%s" % (where, run["error"], run.get("tb", "")[-400:]), w)
        return res
    gro = T.read_gro(str(outp))
    exp = T.expected_rows(sysd)
    if [(r["resid"], r["resname"], r["name"]) for r in gro["rows"]] != [(e[0], e[1], e[2]) for e in exp]:
        violation(res, "ignored-molecule-changes-atom-list", "output atom list differs from the topology with -ign", w)
        return res
    if want_edge is not None and any(abs(x - want_edge) > 2e-4 for x in gro["box"][:3]):
        violation(res, "density-box-leaves-out-ignored-molecules", "box %s, the cube for the mass of all molecules (%.1f) at the "
                  "requested density has edge %.4f" % (gro["box"][:3], T.total_mass(sysd), want_edge), w)
    out_groups = C03.split_rows(sysd, gro)
    gi = 0
    ngen = 0
    for g in out_groups:
        if g["molname"] == "SOL":
            want = groups[gi]["rows"]
            gi += 1
            for r, xyz in zip(g["rows"], want):
                bump(res, "supplied_atoms_checked")
                if any(abs(a - c) > 5e-8 for a, c in zip(r["xyz"], xyz)):
                    violation(res, "ignored-molecule-moved", "atom of ignored molecule %d given at %s is written at %s" %
                              (g["mol"], xyz, r["xyz"]), w)
        else:
            ngen += 1
            if not all(np.isfinite(x) for r in g["rows"] for x in r["xyz"]):
                violation(res, "ignored-molecule-disturbs-building:non-finite", "built residue has non-finite coordinates", w)
    bump(res, "generated_residues", ngen)
    # ignored molecules must not be in the engine (they do not take part in building)
    eng = ctx["engine"]
    if eng is not None:
        for mi, mt in enumerate(T.expand(sysd)):
            if mt["name"] == "SOL" and any(k[0] == mi for k in eng.nodes_to_gndx):
                violation(res, "ignored-molecule-in-engine", "ignored molecule %d takes part in the neighbour search" % mi, w)
                break
    bump(res, "failed_attempts_seen", len(ctx["failed_attempts"]))
    res["nontrivial"] = ngen > 0
    return res


# ----------------------------------------------------------------- residues whose atoms are not listed together
def run_scattered(cid, rng, workdir, res):
    """the [ atoms ] section lists the atoms of a residue in any place (GROMACS only asks for consecutive numbers): the
    structure file and the output are in that order, and every supplied atom keeps its coordinates"""
    ntypes = rng.randint(1, 2)
    names = ["RA", "RB", "RC", "RD"]
    moltypes, lines = [], ["[ defaults ]", "1 1 no 1.0 1.0", "[ atomtypes ]", "P 72.0 0.0 A 0.0 0.0",
                           "[ nonbond_params ]", "P P 1 0.35 2.0"]
    how_all = []
    for t in range(ntypes):
        nres = rng.randint(2, 5)
        rnames = [rng.choice(names[2 * t:2 * t + 2]) for _ in range(nres)]
        sizes = {rn: rng.randint(2, 3) for rn in set(rnames)}
        atoms = [(ri, j) for ri in range(nres) for j in range(sizes[rnames[ri]])]
        how = rng.choice(["cap_last", "cap_last", "backbone_first", "any"])
        if how == "cap_last":
            ri = rng.randrange(nres - 1)
            cap = (ri, sizes[rnames[ri]] - 1)
            atoms.remove(cap)
            atoms.append(cap)
        elif how == "backbone_first":
            atoms.sort(key=lambda a: (a[1] > 0, a[0], a[1]))
        else:
            rng.shuffle(atoms)
        how_all.append(how)
        num = {a: k + 1 for k, a in enumerate(atoms)}
        lines += ["[ moleculetype ]", "M%d 1" % t, "[ atoms ]"]
        for (ri, j) in atoms:
            lines.append("%d P %d %s A%d %d 0.0 72.0" % (num[(ri, j)], ri + 1, rnames[ri], j, num[(ri, j)]))
        lines.append("[ bonds ]")
        for ri in range(nres):
            for j in range(1, sizes[rnames[ri]]):
                lines.append("%d %d 1 0.3 5000" % (num[(ri, j - 1)], num[(ri, j)]))
            if ri:
                lines.append("%d %d 1 0.35 5000" % (num[(ri - 1, 0)], num[(ri, 0)]))
        moltypes.append({"name": "M%d" % t, "rnames": rnames, "atoms": atoms, "count": rng.randint(1, 3)})
    lines += ["[ system ]", "pvmon scattered", "[ molecules ]"] + ["%s %d" % (m["name"], m["count"]) for m in moltypes]
    text = "\n".join(lines) + "\n"
    (Path(workdir) / "s.top").write_text(text)
    mols = [m for m in moltypes for _ in range(m["count"])]
    used = sorted({rn for m in moltypes for rn in m["rnames"]})
    mode = rng.choice(["full", "molecules", "res", "res"])
    rebuild = []
    nsup = len(mols)
    if mode == "molecules":
        nsup = rng.randint(1, len(mols))
    elif mode == "res" and len(used) > 1:
        rebuild = rng.sample(used, rng.randint(1, len(used) - 1))
    b = 9.0
    rows, want = [], {}
    for mi, m in enumerate(mols[:nsup]):
        y = 0.8 + 1.1 * mi
        for (ri, j) in m["atoms"]:
            if m["rnames"][ri] in rebuild:
                continue
            xyz = (round(0.7 + 0.45 * ri + 0.11 * j + rng.uniform(-0.02, 0.02), 3), round(y + 0.25 * j, 3),
                   round(4.0 + rng.uniform(-0.05, 0.05), 3))
            rows.append({"resid": ri + 1, "resname": m["rnames"][ri], "name": "A%d" % j, "xyz": xyz})
            want[(mi, ri, j)] = xyz
    T.write_gro(os.path.join(workdir, "in.gro"), rows, [b, b, b])
    kw = {"coordpath": Path(workdir) / "in.gro"}
    if rebuild:
        kw["build_res"] = rebuild
    ctx_kw = {}
    if rng.random() < 0.3 and (rebuild or nsup < len(mols)):
        ctx_kw["fail_attempts_left"] = rng.randint(1, 2)
    outp = Path(workdir) / "o.gro"
    run, ctx = CC.run_gen_coords(ctx_kw=ctx_kw, toppath=Path(workdir) / "s.top", outpath=outp, name="x", **kw)
    w = {"top": text, "in.gro": open(os.path.join(workdir, "in.gro")).read(), "options": {"build_res": rebuild}}
    res["sample"] = {"listing": how_all, "mode": mode, "molecules": len(mols), "supplied_molecules": nsup, "rebuilt": rebuild}
    res["sig"] = sig_of([text, w["in.gro"], rebuild])
    bump(res, "scattered_runs")
    for h in how_all:
        note(res, "scattered_listings", h)
    if run["status"] != "ok":
        res["status"] = "rejected"
        violation(res, "crash:scattered:%s" % run["exc_type"], "gen_coords stopped with %s\n%s" %
                  (run["error"], run.get("tb", "")[-500:]), w)
        return res
    gro = T.read_gro(str(outp))
    exp = [(mi, ri, j, m["rnames"][ri]) for mi, m in enumerate(mols) for (ri, j) in m["atoms"]]
    got = [(r["resid"], r["resname"], r["name"]) for r in gro["rows"]]
    if got != [(ri + 1, rn, "A%d" % j) for (_mi, ri, j, rn) in exp]:
        violation(res, "output-not-in-topology-order:scattered", "atoms written %s, the topology lists %s" %
                  (got[:8], [(ri + 1, rn, "A%d" % j) for (_mi, ri, j, rn) in exp][:8]), w)
        return res
    ngen = 0
    for (mi, ri, j, rn), r in zip(exp, gro["rows"]):
        if not all(np.isfinite(x) for x in r["xyz"]):
            violation(res, "non-finite-coordinate:scattered", "atom A%d of residue %s%d" % (j, rn, ri + 1), w)
            return res
        if (mi, ri, j) in want:
            bump(res, "scattered_supplied_atoms_checked")
            bump(res, "supplied_atoms_checked")
            if any(abs(a - c) > 5e-8 for a, c in zip(r["xyz"], want[(mi, ri, j)])):
                violation(res, "supplied-atom-moved:atoms-of-a-residue-not-listed-together",
                          "atom A%d of residue %s%d (molecule %d, listing %s) given at %s is written at %s" %
                          (j, rn, ri + 1, mi, how_all, want[(mi, ri, j)], r["xyz"]), w)
                return res
        else:
            ngen += 1
    if ngen:
        bump(res, "scattered_runs_with_rebuilt_residues")
    bump(res, "failed_attempts_seen", len(ctx["failed_attempts"]))
    res["nontrivial"] = True
    return res
