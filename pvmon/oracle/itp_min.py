"""Minimal independent reader of the .itp that gen_params writes (format controlled by the writer)."""
from collections import Counter, defaultdict

from .refparams import canon_atoms, SEC_NATOMS

NAT = dict(SEC_NATOMS)
NAT.update({"virtual_sites2": 3, "virtual_sites3": 4, "virtual_sitesn": None, "settles": 1, "virtual_sites1": 2,
            "virtual_sites4": 5, "dihedral_restraints": 4, "angle_restraints": 4, "angle_restraints_z": 2,
            "distance_restraints": 2, "orientation_restraints": 2, "cmap": 5, "polarization": 2,
            "thole_polarization": 4, "water_polarization": 5, "pairs_nb": 2})


def read_itp(path):
    out = {"moltype": None, "nrexcl": None, "atoms": [], "inter": defaultdict(Counter), "raw": defaultdict(list),
           "header": [], "excl_pairs": set()}
    sec = None
    cond = ()
    for raw in open(path):
        line = raw.split(";")[0].strip()
        if raw.startswith(";") and sec is None:
            out["header"].append(raw.rstrip("\n"))
        if not line:
            continue
        if line.startswith("["):
            sec = line.strip("[] \t")
            continue
        if line.startswith("#"):
            tok = line.split()
            if tok[0] in ("#ifdef", "#ifndef"):
                cond = (tok[0][1:], tok[1])
            elif tok[0] == "#endif":
                cond = ()
            continue
        t = line.split()
        if sec == "moleculetype":
            out["moltype"], out["nrexcl"] = t[0], int(t[1])
        elif sec == "atoms":
            out["atoms"].append({"idx": int(t[0]), "atype": t[1], "resid": int(t[2]), "resname": t[3], "name": t[4],
                                 "cg": int(t[5]), "charge": float(t[6]) if len(t) > 6 else None,
                                 "mass": float(t[7]) if len(t) > 7 else None})
        elif sec == "exclusions":
            ats = tuple(int(x) for x in t)
            out["inter"][sec][(canon_atoms(sec, ats), (), cond)] += 1
            for o in ats[1:]:
                out["excl_pairs"].add(frozenset((ats[0], o)))
        else:
            n = NAT.get(sec)
            if sec == "virtual_sitesn" and len(t) >= 3 and t[1] in ("1", "2"):
                # site, function, constructing atoms (the site is built from the set of the others)
                ats = (int(t[0]),) + tuple(int(x) for x in t[2:])
                out["inter"][sec][(ats, (t[1],), cond)] += 1
                continue
            if n is None:
                out["raw"][sec].append((t, cond))
                continue
            ats = tuple(int(x) for x in t[:n])
            out["inter"][sec][(canon_atoms(sec, ats), tuple(t[n:]), cond)] += 1
    return out
