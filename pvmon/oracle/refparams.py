"""Reference model of gen_params written from the property statements (C01, C02, C10, C14).

Independent of polyply / vermouth / networkx matching code: brute-force enumeration of
injective residue assignments, own reading of the order table, own exclusion recount.

Input : FF spec (pvmon.gen.ff), residue graph {nodes:[{key,resname,resid,from_itp?}], edges:[(k1,k2,label)]}
Output: expected molecule (atoms, interactions per section, atom-level edges, nrexcl,
        explicit exclusions, missing residue links) + bookkeeping for evidence.
"""
import itertools
from collections import Counter, defaultdict, deque

from ..gen.ff import SEC_NATOMS


# ----------------------------------------------------------------------------- order table (B1)
def _kind(o):
    if isinstance(o, int):
        return ("n", o)
    if set(o) == {">"}:
        return ("s", len(o))
    if set(o) == {"<"}:
        return ("s", -len(o))
    if set(o) == {"*"}:
        return ("*", len(o))
    raise ValueError(o)


def order_rel(o1, r1, o2, r2):
    k1, v1 = _kind(o1)
    k2, v2 = _kind(o2)
    if k1 == "n" and k2 == "n":
        return (v2 - v1) == (r2 - r1)
    if k1 == "n" or k2 == "n":
        if k1 != "n":
            k1, v1, r1, k2, v2, r2 = k2, v2, r2, k1, v1, r1
        if v1 != 0:
            return True          # '!' in the table
        if k2 == "s":
            return r2 != r1 and ((r2 - r1) > 0) == (v2 > 0)
        return r1 != r2
    if k1 == "s" and k2 == "s":
        if v1 == v2:
            return r1 == r2
        return r1 != r2 and (r1 < r2) == (v1 < v2)
    if k1 == "*" and k2 == "*":
        return (r1 == r2) if v1 == v2 else (r1 != r2)
    return True


# ----------------------------------------------------------------------------- canonical forms
def canon_atoms(sec, atoms):
    """equivalence class representative: sections that are symmetric under reversal"""
    atoms = tuple(atoms)
    if sec == "exclusions" and len(atoms) > 2:
        return atoms[:1] + tuple(sorted(atoms[1:]))          # the first atom is excluded from each of the others
    if sec in ("bonds", "pairs", "constraints", "angles", "dihedrals", "impropers", "exclusions"):
        rev = tuple(reversed(atoms))
        return min(atoms, rev)
    return atoms


def cond_of(meta):
    for k in ("ifdef", "ifndef"):
        if k in meta:
            return (k, meta[k])
    return ()


def file_sec(sec):
    return "dihedrals" if sec == "impropers" else sec


# ----------------------------------------------------------------------------- links from dangling interactions
def dangling_links(block):
    """equivalent '+' links of a monomer .itp block (statement C02, last sentence)"""
    na = len(block["atoms"])
    links = []
    prev = None
    for sec in _sec_order(block):
        for it in block["inter"]:
            if it["sec"] != sec or max(it["atoms"]) < na:
                continue
            if prev is None or it["atoms"] != prev["_raw"]:
                latoms = {}
                keys = []
                for a in it["atoms"]:
                    o, loc = divmod(a, na)
                    key = (str(o), block["atoms"][loc]["name"])
                    latoms[key] = {"order": o, "name": block["atoms"][loc]["name"],
                                   "attrs": {"resname": block["name"]}, "replace": None, "remove": False}
                    keys.append(key)
                prev = {"atoms": latoms, "resname_all": None, "inter": [], "edges": [], "nonedges": [],
                        "patterns": [], "_raw": list(it["atoms"]), "_keys": keys, "dangling": True,
                        "edge_all_sections": True}
                links.append(prev)
            prev["inter"].append({"sec": it["sec"], "atoms": prev["_keys"], "params": it["params"],
                                  "meta": dict(it["meta"])})
    # version tags for repeated atoms inside one link: first term gets the highest tag
    for l in links:
        # repeated atoms *within one section* are distinct terms: the first gets the highest tag
        cnt = Counter((i["sec"], tuple(i["atoms"])) for i in l["inter"])
        for i in l["inter"]:
            t = cnt[(i["sec"], tuple(i["atoms"]))]
            i["meta"]["version"] = t
            cnt[(i["sec"], tuple(i["atoms"]))] = t - 1
    return links


def _sec_order(block):
    order = []
    for it in block["inter"]:
        if it["sec"] not in order:
            order.append(it["sec"])
    return order


EDGE_SECS_FF = ("bonds", "angles", "dihedrals", "constraints")


def link_res_edges(link):
    """edges between link residues (orders) with the label common to all atom edges"""
    labels = defaultdict(list)
    atom_edges = []
    for it in link["inter"]:
        if link.get("edges_given"):
            break            # parsed definition: the edge list of the link is complete as it stands
        if it["meta"].get("edge", True) is False:
            continue
        if not link.get("edge_all_sections") and it["sec"] not in EDGE_SECS_FF:
            continue
        for x, y in zip(it["atoms"][:-1], it["atoms"][1:]):
            atom_edges.append((x, y, {}))
    for x, y, attrs in link["edges"]:
        atom_edges.append((x, y, attrs))
    # atom edge attributes: networkx add_edge on an existing edge *updates* attributes
    merged = {}
    for x, y, attrs in atom_edges:
        k = frozenset((x, y))
        if len(k) < 2:
            continue
        merged.setdefault(k, {}).update(attrs)
    for k, attrs in merged.items():
        x, y = tuple(k)
        ox, oy = link["atoms"][x]["order"], link["atoms"][y]["order"]
        if str(ox) != str(oy):
            labels[frozenset((str(ox), str(oy)))].append(attrs.get("linktype"))
    out = {}
    for k, ls in labels.items():
        out[k] = ls[0] if all(l == ls[0] for l in ls) else None
    return out, {k for k in merged}


def _attr_ok(atom, resnode, k, v):
    """a link atom's extra requirement k = v against the atom as it was copied from its block (atom type, charge,
    mass, position in the block) or, for anything else, against the attributes given to the residue in the graph"""
    have = atom[k] if k in ("atype", "charge", "mass", "index") else resnode.get(k)
    if have is None or isinstance(v, (dict, list, set)):
        return False
    if isinstance(v, str) and "|" in v:
        return have in v.split("|")
    return have == v


def _pat_ok(have, want):
    if isinstance(want, str) and "|" in want:
        return have in want.split("|")
    return have == want


# ----------------------------------------------------------------------------- the reference
class Unsupported(Exception):
    """input outside the sub-language the reference understands (never a verdict)"""


def reference(spec, graph):
    blocks = {b["name"]: b for b in spec["blocks"]}
    nodes = sorted(graph["nodes"], key=lambda n: n["resid"])
    gedges = {}
    for a, b, lab in graph["edges"]:
        gedges[frozenset((a, b))] = lab
    by_key = {n["key"]: n for n in nodes}

    # ---- residue -> (block, residue index inside block) -------------------------------------------------
    res_atoms = {}        # residue key -> list of global atom idx (1-based)
    atoms = []            # expected atom table
    inter = []            # (sec, atoms(global), params, meta, origin)
    edges = set()
    excl_of = {}          # global atom idx -> exclusion distance of its block
    block_of = {}
    handled = set()
    last_cg = 0
    for n in nodes:
        if n["key"] in handled:
            continue
        bname = n.get("from_itp") or n["resname"]
        if bname not in blocks:
            raise Unsupported("unknown block")
        b = blocks[bname]
        if b["multi"]:
            k = len(b["resnames"])
            frag = [m for m in nodes if m["resid"] in range(n["resid"], n["resid"] + k)]
            if len(frag) != k or any(m.get("from_itp") != bname for m in frag):
                raise Unsupported("fragment not contiguous")
            if [m["resname"] for m in frag] != b["resnames"]:
                raise Unsupported("fragment resnames differ from block")
            members = {rid + 1: frag[rid]["key"] for rid in range(k)}
        else:
            members = {1: n["key"]}
        base = len(atoms)
        for loc, a in enumerate(b["atoms"]):
            rkey = members[a["rid"]]
            g = base + loc + 1
            atoms.append({"idx": g, "name": a["name"], "atype": a["atype"], "resid": by_key[rkey]["resid"],
                          "resname": a["resname"], "cg": a["cg"] + last_cg, "charge": a["charge"],
                          "mass": a["mass"], "res": rkey, "block": bname, "loc": loc, "index": a.get("index")})
            res_atoms.setdefault(rkey, []).append(g)
            excl_of[g] = b["nrexcl"]
            block_of[g] = bname
        last_cg = atoms[-1]["cg"]
        na = len(b["atoms"])
        for it in b["inter"]:
            if max(it["atoms"]) >= na:
                continue          # dangling: handled as links
            ga = tuple(base + x + 1 for x in it["atoms"])
            inter.append((it["sec"], ga, tuple(it["params"]), dict(it["meta"]), "block"))
            esecs = None if b.get("edge_all") else EDGE_SECS_FF
            if "edges_given" in b:
                continue
            if it["meta"].get("edge", True) is not False and (esecs is None or it["sec"] in esecs):
                for x, y in zip(ga[:-1], ga[1:]):
                    if x != y:
                        edges.add(frozenset((x, y)))
        for x, y in b.get("edges_given", ()):
            if x != y:
                edges.add(frozenset((base + x + 1, base + y + 1)))
        handled.update(members.values())

    # ---- links ---------------------------------------------------------------------------------------------
    links = list(spec["links"])
    applied = {}     # (sec, atoms, version) -> (params, meta, origin)  later wins
    for sec, ga, params, meta, origin in inter:
        applied[(sec, ga, meta.get("version", 1))] = (params, meta, origin)
    n_block_keys = len(applied)
    collapsed_block = len(inter) - n_block_keys
    replaced = {}    # atom idx -> {attr: value}
    removed = set()
    stats = Counter()
    live_attr = {a["idx"]: {"atype": a["atype"], "charge": a["charge"], "mass": a["mass"], "atomname": a["name"],
                            "resname": a["resname"]} for a in atoms}
    link_keys = set()
    for li, link in enumerate(links):
        latoms = link["atoms"]
        ords = []
        for a in latoms.values():
            if a["order"] not in ords:
                ords.append(a["order"])
        ledges, atom_edge_set = link_res_edges(link)
        want_res = {}
        for a in latoms.values():
            rn = a["attrs"].get("resname", link["resname_all"])
            want_res.setdefault(str(a["order"]), []).append(rn)
        for assign in itertools.permutations([n["key"] for n in nodes], len(ords)):
            m = dict(zip(map(str, ords), assign))
            ok = True
            for o1, o2 in itertools.combinations(ords, 2):
                pair = frozenset((m[str(o1)], m[str(o2)]))
                lk = frozenset((str(o1), str(o2)))
                if (pair in gedges) != (lk in ledges):
                    ok = False
                    stats["rej_induced"] += 1
                    break
                if pair in gedges and gedges[pair] != ledges[lk]:
                    ok = False
                    stats["rej_linktype"] += 1
                    break
                if not order_rel(o1, by_key[m[str(o1)]]["resid"], o2, by_key[m[str(o2)]]["resid"]):
                    ok = False
                    stats["rej_order"] += 1
                    break
            if not ok:
                continue
            idx = {}
            for key, a in latoms.items():
                res = m[str(a["order"])]
                rn = by_key[res]["resname"]
                want = a["attrs"].get("resname", link["resname_all"])
                if want is not None and rn not in want.split("|"):
                    ok = False
                    stats["rej_resname"] += 1
                    break
                cands = []
                for g in res_atoms[res]:
                    at = atoms[g - 1]
                    if at["name"] != a["name"]:
                        continue
                    if any(not _attr_ok(at, by_key[res], k, v) for k, v in a["attrs"].items() if k != "resname"):
                        continue
                    if want is not None and at["resname"] not in want.split("|"):
                        continue
                    cands.append(g)
                if len(cands) != 1:
                    ok = False
                    stats["rej_atom_%s" % ("none" if not cands else "ambiguous")] += 1
                    break
                idx[key] = cands[0]
            if not ok:
                continue
            # non-edges: anchor must not be bonded (at this point) to a matching atom of residue resid+order
            veto = False
            for anchor, tgt in link["nonedges"]:
                g = idx[anchor]
                want_resid = atoms[g - 1]["resid"] + (tgt["order"] - latoms[anchor]["order"])
                for e in edges:
                    if g in e:
                        (h,) = tuple(e - {g}) if len(e) == 2 else (g,)
                        at = atoms[h - 1]
                        # the target inherits the residue names the link states for all its atoms
                        want_rn = tgt.get("resname") or link.get("resname_all")
                        if want_rn and at["resname"] not in str(want_rn).split("|"):
                            continue
                        if at["resid"] == want_resid and at["name"] == tgt["name"]:
                            veto = True
            if veto:
                stats["rej_nonedge"] += 1
                continue
            if link["patterns"]:
                good = False
                for row in link["patterns"]:
                    if all(all(_pat_ok(live_attr[idx[k]].get(ak), av) for ak, av in at.items()) for k, at in row):
                        good = True
                if not good:
                    stats["rej_pattern"] += 1
                    continue
            stats["matches"] += 1
            for key, a in latoms.items():
                if a["remove"]:
                    removed.add(idx[key])
                elif a["replace"]:
                    replaced.setdefault(idx[key], {}).update(a["replace"])
                    live_attr[idx[key]].update(a["replace"])
            for it in link["inter"]:
                ga = tuple(idx[k] for k in it["atoms"])
                k3 = (it["sec"], ga, it["meta"].get("version", 1))
                if k3 in applied and applied[k3][2] != li:
                    stats["overrides"] += 1
                elif k3 in applied and applied[k3][2] == li and applied[k3][0] != tuple(it["params"]):
                    # two matches of the *same* link write different parameters to the same atoms and version:
                    # the statement only orders different links, so the outcome is not defined
                    raise Unsupported("one link defines the same atoms twice with different parameters")
                meta = {k: v for k, v in it["meta"].items()}
                applied[k3] = (tuple(it["params"]), meta, li)
                link_keys.add(k3)
            for e in atom_edge_set:
                x, y = tuple(e)
                if idx[x] != idx[y]:
                    edges.add(frozenset((idx[x], idx[y])))

    for rkey, members in res_atoms.items():
        if all(g in removed for g in members):
            raise Unsupported("links remove every atom of a residue")
    # ---- explicit links (by atom number of the final molecule): applied after all other links -----------------
    for ex in spec.get("explicit", []):
        ga = tuple(ex["atoms"])
        applied[(ex["sec"], ga, "explicit")] = (tuple(ex["params"]), {}, "explicit")
        link_keys.add((ex["sec"], ga, "explicit"))
        # bonds are what the connectivity sections describe; a pair or an exclusion between two atoms is not a bond
        if ex["sec"] in EDGE_SECS_FF + ("cmap",):
            for x, y in zip(ga[:-1], ga[1:]):
                edges.add(frozenset((x, y)))
        stats["explicit_links"] += 1
    # ---- assemble ------------------------------------------------------------------------------------------
    exp_inter = defaultdict(Counter)
    for (sec, ga, ver), (params, meta, origin) in applied.items():
        if sec == "exclusions" and ga[0] not in removed and any(g in removed for g in ga):
            # an exclusion row names one atom and its partners: the partners that are left stay excluded
            ga = tuple(g for g in ga if g not in removed)
            if len(ga) < 2:
                continue
            stats["exclusion_rows_that_lost_a_partner"] += 1
        if any(g in removed for g in ga):
            continue
        exp_inter[file_sec(sec)][(canon_atoms(sec, ga), tuple(params), cond_of(meta))] += 1
    edges = {e for e in edges if not (e & removed)}
    # exclusions (C14)
    nrexcls = {b["nrexcl"] for b in (blocks[x] for x in {block_of[g] for g in block_of})}
    nrexcl = min(nrexcls)
    adj = defaultdict(set)
    for e in edges:
        x, y = tuple(e)
        adj[x].add(y)
        adj[y].add(x)

    def bfs(src, maxd):
        dist = {src: 0}
        q = deque([src])
        while q:
            u = q.popleft()
            if dist[u] == maxd:
                continue
            for v in adj[u]:
                if v not in dist:
                    dist[v] = dist[u] + 1
                    q.append(v)
        return dist

    live = [a["idx"] for a in atoms if a["idx"] not in removed]
    maxd = max(nrexcls) if nrexcls else 0
    dist = {g: bfs(g, max(maxd, 1)) for g in live}
    return {"atoms": atoms, "inter": exp_inter, "edges": edges, "nrexcl": nrexcl, "nrexcls": sorted(nrexcls),
            "excl_of": excl_of, "dist": dist, "removed": removed, "replaced": replaced,
            "res_atoms": res_atoms, "link_keys": link_keys, "stats": stats,
            "collapsed_block": collapsed_block, "gedges": gedges, "by_key": by_key}


def missing_links(ref):
    """residue-graph edges without any atom-level edge between the two residues"""
    res_of = {a["idx"]: a["res"] for a in ref["atoms"]}
    have = set()
    for e in ref["edges"]:
        x, y = tuple(e)
        if res_of[x] != res_of[y]:
            have.add(frozenset((res_of[x], res_of[y])))
    return {pair for pair in ref["gedges"] if pair not in have}
