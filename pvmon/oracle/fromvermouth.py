"""Translate a force field *as parsed by polyply* (vermouth Block / Link objects) into the input language of the
reference model (pvmon.oracle.refparams).  Used for the library strata: the parser's result is taken as the
definition (reading is the subject of C08/C11), the matching and application is decided by the reference.

Everything the reference has no rule for raises refparams.Unsupported with a reason, per link, so that a case is only
skipped when such a link could apply to the residues of that case."""
from .refparams import Unsupported

IGNORED = {"order", "charge_group", "replace", "resid"}        # C02: "relative residue order" is judged separately


def _plain(v):
    """attribute value -> string ('A|B' for a choice); None if the value has no counterpart in the reference"""
    if isinstance(v, (str, int, float)):
        return v
    cls = type(v).__name__
    if cls == "Choice":
        vals = list(v.value)
        if all(isinstance(x, str) for x in vals):
            return "|".join(vals)
    return None


def _meta(meta):
    out = {}
    for k, v in meta.items():
        if k in ("ifdef", "ifndef", "version"):
            out[k] = v
        elif k == "edge":
            out[k] = v
        # comment, group, ... have no influence on what is applied
    return out


def convert_block(name, block):
    order = list(block.nodes)
    pos = {n: i for i, n in enumerate(order)}
    atoms = []
    resids = []
    for n in order:
        d = block.nodes[n]
        if d.get("resid") not in resids:
            resids.append(d.get("resid"))
    for n in order:
        d = block.nodes[n]
        atoms.append({"name": d["atomname"], "atype": d.get("atype"), "charge": d.get("charge"), "mass": d.get("mass"),
                      "cg": d.get("charge_group"), "resname": d.get("resname"), "rid": resids.index(d.get("resid")) + 1,
                      "index": d.get("index")})
    inter = []
    for sec, lst in block.interactions.items():
        for it in lst:
            if any(a not in pos for a in it.atoms):
                raise Unsupported("block %s: interaction on an atom that is not in the block" % name)
            inter.append({"sec": sec, "atoms": [pos[a] for a in it.atoms], "params": [str(p) for p in it.parameters],
                          "meta": _meta(it.meta)})
    resnames = []
    for rid in range(1, len(resids) + 1):
        names = {a["resname"] for a in atoms if a["rid"] == rid}
        resnames.append(sorted(names)[0])
    return {"name": name, "nrexcl": block.nrexcl, "syntax": "parsed", "atoms": atoms, "inter": inter,
            "multi": len(resids) > 1, "resnames": resnames,
            "edges_given": [(pos[a], pos[b]) for a, b in block.edges if a in pos and b in pos]}


def convert_link(link):
    """returns (link dict, None) or (None, reason)"""
    if getattr(link, "features", None):
        return None, "features"
    if getattr(link, "molecule_meta", None):
        return None, "molecule_meta"
    latoms = {}
    for key in link.nodes:
        d = link.nodes[key]
        if "atomname" not in d:
            return None, "node without atomname"
        name = _plain(d["atomname"])
        if not isinstance(name, str) or "|" in name:
            return None, "atomname is not a plain string"
        attrs = {}
        for k, v in d.items():
            if k in IGNORED or k == "atomname":
                continue
            if isinstance(v, (dict, list, set)):
                attrs[k] = v                  # can never equal an atom's value
                continue
            pv = _plain(v)
            if pv is None:
                return None, "%s predicate %s" % (k, type(v).__name__)
            attrs[k] = pv
        rep = d.get("replace") or {}
        remove = False
        replace = {}
        for k, v in rep.items():
            if k == "atomname" and v is None:
                remove = True
            elif k in ("atype", "charge", "mass"):
                if k != "atype":
                    try:
                        v = float(v)          # the file holds the number whatever the way the link spells it
                    except (TypeError, ValueError):
                        return None, "replace %s by a non-number" % k
                replace[k] = v
            else:
                return None, "replace of %s" % k
        order = d.get("order", 0)
        latoms[key] = {"order": order, "name": name, "attrs": attrs, "replace": replace or None, "remove": remove}
    inter = []
    for sec, lst in link.interactions.items():
        for it in lst:
            if any(a not in latoms for a in it.atoms):
                return None, "interaction on undeclared atom"
            inter.append({"sec": sec, "atoms": list(it.atoms), "params": [str(p) for p in it.parameters],
                          "meta": _meta(it.meta)})
    nonedges = []
    for anchor, tattrs in link.non_edges:
        extra = set(tattrs) - {"atomname", "order", "resname"}
        if extra or anchor not in latoms:
            return None, "non-edge with %s" % (sorted(extra) or "unknown anchor")
        if latoms[anchor]["order"] != 0 or not isinstance(tattrs.get("order", 0), int):
            return None, "non-edge anchored outside the reference residue"
        tgt = {"order": tattrs.get("order", 0), "name": tattrs["atomname"]}
        if "resname" in tattrs:
            rn = _plain(tattrs["resname"])
            if rn is None:
                return None, "non-edge target with a residue name the reference cannot express"
            tgt["resname"] = rn
        nonedges.append((anchor, tgt))
    patterns = []
    for row in getattr(link, "patterns", []):
        prow = []
        for key, attrs in row:
            conv = {}
            for k, v in attrs.items():
                if k in ("order", "replace"):
                    continue
                pv = _plain(v)
                if k not in ("atype", "charge", "mass", "atomname", "resname") or pv is None:
                    return None, "pattern on %s" % k
                conv[k] = pv
            prow.append((key, conv))
        patterns.append(prow)
    edges = [(a, b, dict(link.edges[a, b])) for a, b in link.edges]
    for a, b, attrs in edges:
        if set(attrs) - {"linktype"}:
            return None, "edge attribute %s" % sorted(set(attrs) - {"linktype"})[0]
    return {"atoms": latoms, "resname_all": None, "inter": inter, "edges": edges, "nonedges": nonedges,
            "patterns": patterns, "edges_given": True}, None


def link_resnames(link):
    """set of residue names a vermouth link can touch; None = unconstrained"""
    out = set()
    for key in link.nodes:
        rn = link.nodes[key].get("resname")
        p = _plain(rn) if rn is not None else None
        if not isinstance(p, str):
            return None
        out.update(p.split("|"))
    return out


def convert_force_field(ff):
    """-> dict(blocks={name: block|reason}, links=[(link dict|None, reason, resnames)])"""
    blocks = {}
    for name, block in ff.blocks.items():
        try:
            blocks[name] = convert_block(name, block)
        except Unsupported as err:
            blocks[name] = str(err)
        except Exception as err:          # noqa
            blocks[name] = "%s: %s" % (type(err).__name__, err)
    links = []
    for link in ff.links:
        conv, why = convert_link(link)
        links.append((conv, why, link_resnames(link)))
    mods = {}
    for name, mod in getattr(ff, "modifications", {}).items():
        entry = {"atoms": {}, "interactions": sum(len(v) for v in mod.interactions.values())}
        for atom in mod.atoms:
            entry["atoms"][atom["atomname"]] = dict(atom.get("replace", {}))
        mods[name if isinstance(name, str) else "|".join(name)] = entry
    return {"blocks": blocks, "links": links, "mods": mods}
