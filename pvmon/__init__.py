"""pvmon - runtime monitors, reference oracles and fault injection for polyply_1.0"""
