"""pvmon core: case planning, worker processes, verdicts, evidence, known findings.

A *check* is a module ``pvmon.checks.Cxx`` exposing

    PID, LEVEL, RULE, ASSUMPTIONS
    plan(tier, seed)            -> list of case ids (small JSON-able tuples/lists)
    setup()                     -> attach monitors (called once per worker process)
    run_case(cid, rng, workdir) -> dict  (see ``new_result``)
    REQUIRED = {counter: min}   -> observation floors; below => INCONCLUSIVE
    finalize(agg) (optional)    -> may add violations / coverage keys from aggregated counters

The runner shards the case ids over worker *subprocesses* (one python process per
shard, killed on a wall-clock watchdog => inconclusive, never a verdict), each
worker re-seeds ``random`` and ``numpy.random`` per case from
H(VERIF_SEED, PID, case id) so that a case replays in isolation.
"""
import hashlib
import json
import os
import random
import signal
import subprocess
import sys
import tempfile
import time
import traceback

VERIF = os.path.dirname(os.path.dirname(os.path.abspath(__file__)))
REPO = os.environ.get("PVMON_REPO", "/repo")
PY = "/venv/bin/python"


# --------------------------------------------------------------------------- utils
def h64(*parts):
    m = hashlib.sha256(json.dumps(parts, sort_keys=True, default=str).encode()).digest()
    return int.from_bytes(m[:8], "big")


def sig_of(obj):
    return hashlib.sha256(json.dumps(obj, sort_keys=True, default=str).encode()).hexdigest()[:16]


def jsonable(o, depth=0):
    """best effort conversion of numpy / sets / tuples for witnesses"""
    try:
        import numpy as np
    except Exception:  # pragma: no cover
        np = None
    if depth > 8:
        return str(o)
    if isinstance(o, dict):
        return {str(k): jsonable(v, depth + 1) for k, v in o.items()}
    if isinstance(o, (list, tuple, set, frozenset)):
        seq = list(o)
        if isinstance(o, (set, frozenset)):
            seq = sorted(seq, key=str)
        return [jsonable(v, depth + 1) for v in seq]
    if np is not None:
        if isinstance(o, np.ndarray):
            return [jsonable(v, depth + 1) for v in o.tolist()]
        if isinstance(o, np.generic):
            return o.item()
    if isinstance(o, float):
        if o != o:
            return "nan"
        if o in (float("inf"), float("-inf")):
            return "inf" if o > 0 else "-inf"
        return o
    if isinstance(o, (int, str, bool)) or o is None:
        return o
    return str(o)


def new_result():
    return {"status": "ok",        # ok | rejected | timeout | error
            "nontrivial": False,
            "sig": None,           # canonical descriptor hash (distinctness)
            "viol": [],            # [{key, msg, witness}]
            "counters": {},        # summed; keys starting max_/min_ are folded with max/min
            "sets": {},            # name -> list of hashable items; unioned (distinct states etc.)
            "sample": None}


def bump(res, name, n=1):
    c = res["counters"]
    if name.startswith("max_"):
        c[name] = max(c.get(name, n), n)
    elif name.startswith("min_"):
        c[name] = min(c.get(name, n), n)
    else:
        c[name] = c.get(name, 0) + n


def note(res, setname, item):
    res["sets"].setdefault(setname, [])
    if item not in res["sets"][setname]:
        res["sets"][setname].append(item)


def violation(res, key, msg, witness=None):
    """key = *mechanism key* (clause + input class), never random values"""
    res["viol"].append({"key": key, "msg": msg, "witness": jsonable(witness)})


class CaseTimeout(Exception):
    pass


# --------------------------------------------------------------------------- known findings
def load_known(pid):
    known, fixed = {}, []
    path = os.path.join(VERIF, "known_findings.txt")
    if os.path.exists(path):
        for line in open(path):
            line = line.strip()
            if not line or line.startswith("#"):
                continue
            kind, _, rest = line.partition(":")
            toks = rest.split()
            kv = dict(t.split("=", 1) for t in toks if "=" in t and t.split("=", 1)[0] in ("property", "key"))
            if kv.get("property") != pid:
                continue
            desc = " ".join(t for t in toks if not (t.startswith("property=") or t.startswith("key=")))
            if kind.strip() == "known":
                known[kv.get("key")] = desc
            elif kind.strip() == "fixed":
                fixed.append(desc)
    return known, fixed


# --------------------------------------------------------------------------- worker side
def worker_env():
    env = dict(os.environ)
    env["PYTHONPATH"] = os.pathsep.join([REPO, os.path.join(VERIF, ".deps"), VERIF])
    env["PYTHONHASHSEED"] = env.get("PYTHONHASHSEED", "0")
    env["PYTHONDONTWRITEBYTECODE"] = "1"
    env["TQDM_DISABLE"] = "1"
    for k in ("OMP_NUM_THREADS", "OPENBLAS_NUM_THREADS", "MKL_NUM_THREADS", "NUMEXPR_NUM_THREADS"):
        env[k] = "1"
    env["PVMON_REPO"] = REPO
    return env


def load_check(pid):
    import importlib
    return importlib.import_module("pvmon.checks." + pid)


def assert_repo():
    import polyply
    root = os.path.realpath(REPO)
    got = os.path.realpath(polyply.__file__)
    if not got.startswith(root + os.sep):
        raise RuntimeError("polyply imported from %s, expected under %s" % (got, root))


def seed_globals(s):
    import numpy as np
    random.seed(s)
    np.random.seed(s % (2 ** 32))


def run_one(check, cid, seed, case_timeout, keep_dir=False):
    """run a single case in this process; returns result dict"""
    res = new_result()
    cs = h64(seed, check.PID, cid)
    rng = random.Random(cs)
    seed_globals(cs ^ 0x5DEECE66D)
    workdir = tempfile.mkdtemp(prefix="pvmon_%s_" % check.PID)
    cwd = os.getcwd()

    def on_alarm(signum, frame):
        raise CaseTimeout()

    old = signal.signal(signal.SIGALRM, on_alarm)
    signal.alarm(int(case_timeout))
    try:
        os.chdir(workdir)
        out = check.run_case(cid, rng, workdir)
        if out is not None:
            res = out
    except CaseTimeout:
        res = new_result()
        res["status"] = "timeout"
    except Exception as err:  # harness/monitor error: reported, never silently dropped
        res = new_result()
        res["status"] = "error"
        res["error"] = "%s: %s\n%s" % (type(err).__name__, err, traceback.format_exc()[-1500:])
    finally:
        signal.alarm(0)
        signal.signal(signal.SIGALRM, old)
        os.chdir(cwd)
        if not keep_dir:
            import shutil
            shutil.rmtree(workdir, ignore_errors=True)
    res["cid"] = cid
    return res


def worker_main(argv):
    pid, tier, seed, shard, nshards, outfile = argv[0], argv[1], int(argv[2]), int(argv[3]), int(argv[4]), argv[5]
    import logging
    logging.disable(logging.NOTSET)
    check = load_check(pid)
    assert_repo()
    check.setup()
    cids = check.plan(tier, seed)
    mine = cids[shard::nshards]
    case_timeout = getattr(check, "CASE_TIMEOUT", 60)
    with open(outfile, "w") as out:
        out.write(json.dumps({"hello": True, "n": len(mine)}) + "\n")
        out.flush()
        for cid in mine:
            res = run_one(check, cid, seed, case_timeout)
            out.write(json.dumps(jsonable(res)) + "\n")
            out.flush()
        out.write(json.dumps({"done": True}) + "\n")


# --------------------------------------------------------------------------- runner side
def aggregate(results):
    agg = {"counters": {}, "sets": {}, "status": {}, "viol": [], "samples": [], "sigs": set(), "evaluations": 0,
           "errors": []}
    for r in results:
        agg["evaluations"] += 1
        agg["status"][r["status"]] = agg["status"].get(r["status"], 0) + 1
        for k, v in r.get("counters", {}).items():
            c = agg["counters"]
            if k.startswith("max_"):
                c[k] = max(c.get(k, v), v)
            elif k.startswith("min_"):
                c[k] = min(c.get(k, v), v)
            else:
                c[k] = c.get(k, 0) + v
        for k, items in r.get("sets", {}).items():
            s = agg["sets"].setdefault(k, set())
            for it in items:
                s.add(json.dumps(it, sort_keys=True))
        if r.get("nontrivial") and r.get("sig"):
            agg["sigs"].add(r["sig"])
        for v in r.get("viol", []):
            v = dict(v)
            v["cid"] = r.get("cid")
            agg["viol"].append(v)
        if r.get("sample") is not None and len(agg["samples"]) < 4 and r.get("nontrivial"):
            agg["samples"].append(r["sample"])
        if r["status"] == "timeout":
            agg.setdefault("timeouts", []).append(r.get("cid"))
        if r["status"] == "error":
            agg["errors"].append({"cid": r.get("cid"), "error": r.get("error")})
    return agg


def run_check(pid, tier, seed, jobs=None, replay=None, only=None):
    t0 = time.time()
    check = load_check(pid)
    env = worker_env()
    jobs = jobs or int(os.environ.get("PVMON_JOBS", "16"))
    evid_path = os.path.join(os.environ.get("PVMON_EVIDENCE_DIR", os.path.join(VERIF, "evidence")), pid + ".json")
    os.makedirs(os.path.dirname(evid_path), exist_ok=True)

    if replay:
        # in-process replay of one recorded case
        rec = json.load(open(replay))
        sys.path[:0] = [REPO, os.path.join(VERIF, ".deps")]
        os.environ.update({k: env[k] for k in ("TQDM_DISABLE",)})
        assert_repo()
        check.setup()
        res = run_one(check, rec["cid"], rec["seed"], getattr(check, "CASE_TIMEOUT", 60) * 5)
        print(json.dumps(jsonable({k: res[k] for k in ("status", "viol", "counters")}), indent=1)[:6000])
        known, _ = load_known(pid)
        bad = [v for v in res["viol"] if v["key"] not in known]
        for v in bad[:1]:
            print("VIOLATION property=%s replay=%s" % (pid, replay))
        return 1 if bad else 0

    nshards = jobs
    tmp = tempfile.mkdtemp(prefix="pvmon_run_%s_" % pid)
    procs = []
    budget = getattr(check, "WALL", {"quick": 600, "thorough": 7200})[tier]
    for sh in range(nshards):
        outfile = os.path.join(tmp, "shard%d.jsonl" % sh)
        cmd = [PY, "-m", "pvmon.worker", pid, tier, str(seed), str(sh), str(nshards), outfile]
        log = open(os.path.join(tmp, "shard%d.log" % sh), "w")
        procs.append((subprocess.Popen(cmd, env=env, cwd=VERIF, stdout=log, stderr=subprocess.STDOUT), outfile, log))
    killed = 0
    deadline = t0 + budget
    for p, _, log in procs:
        left = deadline - time.time()
        try:
            p.wait(timeout=max(1, left))
        except subprocess.TimeoutExpired:
            p.kill()
            p.wait()
            killed += 1
        log.close()
    results, crashed = [], 0
    for sh, (p, outfile, _) in enumerate(procs):
        done = False
        if os.path.exists(outfile):
            for line in open(outfile):
                try:
                    r = json.loads(line)
                except Exception:
                    continue
                if "hello" in r:
                    continue
                if "done" in r:
                    done = True
                    continue
                results.append(r)
        if not done and p.returncode not in (None, -9):
            crashed += 1
            tail = open(os.path.join(tmp, "shard%d.log" % sh)).read()[-2000:]
            print("WORKER-CRASH shard=%d rc=%s\n%s" % (sh, p.returncode, tail))
    agg = aggregate(results)
    if hasattr(check, "finalize"):
        check.finalize(agg, tier)

    known, _fixed = load_known(pid)
    # group violations by mechanism key, first witness per key
    by_key = {}
    for v in agg["viol"]:
        by_key.setdefault(v["key"], []).append(v)
    new_keys = [k for k in by_key if k not in known]
    rc = 0
    lines = []
    os.makedirs(os.path.join(VERIF, "replays"), exist_ok=True)
    for k, vs in sorted(by_key.items()):
        if k in known:
            lines.append("KNOWN-FINDING: property=%s %s [key=%s, %d occurrence(s) this run]" % (pid, known[k], k, len(vs)))
            continue
        v = vs[0]
        rp = os.path.join(VERIF, "replays", "%s-%s-%s.json" % (pid, "".join(c if c.isalnum() else "_" for c in k)[:60],
                                                              sig_of([v["cid"], seed])[:8]))
        json.dump({"property": pid, "key": k, "cid": v["cid"], "seed": seed, "tier": tier, "msg": v["msg"],
                   "witness": v.get("witness"), "occurrences": len(vs)}, open(rp, "w"), indent=1)
        lines.append("VIOLATION property=%s replay=%s  # %s: %s (%d occurrence(s))" % (pid, rp, k, v["msg"][:300], len(vs)))
        rc = 1

    # inconclusive?
    reasons = []
    if killed:
        reasons.append("%d worker(s) hit the wall-clock watchdog" % killed)
    if crashed:
        reasons.append("%d worker(s) crashed" % crashed)
    if agg["status"].get("error"):
        reasons.append("%d case(s) raised inside the harness: %s" % (agg["status"]["error"], agg["errors"][:2]))
    tmo = agg["status"].get("timeout", 0)
    if tmo > getattr(check, "MAX_TIMEOUTS", {"quick": 0, "thorough": 0})[tier]:
        reasons.append("%d case(s) hit the per-case watchdog" % tmo)
    req = getattr(check, "REQUIRED", {})
    if callable(req):
        req = req(tier)
    for name, floor in req.items():
        have = agg["counters"].get(name, 0) if name not in agg["sets"] else len(agg["sets"][name])
        if have < floor:
            reasons.append("monitor counter %s=%s below floor %s" % (name, have, floor))
    if len(agg["sigs"]) < 2:
        reasons.append("fewer than 2 distinct non-trivial cases")

    cov = {"evaluations": agg["evaluations"],
           "distinct_nontrivial": len(agg["sigs"]),
           "rule": check.RULE,
           "samples": agg["samples"] or [r.get("sample") for r in results[:2] if r.get("sample") is not None],
           "case_status": agg["status"],
           "events": {k: (round(v, 6) if isinstance(v, float) else v) for k, v in sorted(agg["counters"].items())},
           "distinct": {k: len(v) for k, v in agg["sets"].items()},
           "known_findings_seen": sorted(k for k in by_key if k in known),
           "violation_keys": sorted(new_keys)}
    if getattr(check, "EXHAUSTIVE", None):
        ex = check.EXHAUSTIVE(tier) if callable(check.EXHAUSTIVE) else check.EXHAUSTIVE
        if ex:
            cov["exhaustive"] = True
            cov["exhaustive_over"] = ex
    if hasattr(check, "coverage_extra"):
        cov.update(check.coverage_extra(agg, tier))
    if not cov["samples"]:
        cov["samples"] = ["(no sample recorded)"]
    evidence = {"property_id": pid, "tier": tier, "seed": seed, "level": check.LEVEL, "coverage": cov,
                "assumptions": list(check.ASSUMPTIONS), "wall_s": round(time.time() - t0, 2),
                "violations": len(new_keys),
                "verdict": "violated" if rc else ("inconclusive" if reasons else "held-on-observed")}
    json.dump(jsonable(evidence), open(evid_path, "w"), indent=1)

    for ln in lines:
        print(ln)
    ev = cov["events"]
    print("%s %s seed=%d: %d cases (%d distinct non-trivial) in %.1fs; status=%s" %
          (pid, tier, seed, agg["evaluations"], len(agg["sigs"]), time.time() - t0, agg["status"]))
    print("  observed: " + ", ".join("%s=%s" % kv for kv in list(ev.items())[:40]))
    if cov["distinct"]:
        print("  distinct: " + ", ".join("%s=%s" % kv for kv in cov["distinct"].items()))
    if agg.get("timeouts"):
        cov["timeout_cases"] = agg["timeouts"][:20]
        print("  per-case watchdog fired for: %s" % agg["timeouts"][:20])
    if "rejections" in agg["sets"]:
        cov["rejection_messages"] = sorted(agg["sets"]["rejections"])[:12]
        print("  rejections: " + " | ".join(cov["rejection_messages"][:6]))
    json.dump(jsonable(evidence), open(evid_path, "w"), indent=1)
    import shutil
    shutil.rmtree(tmp, ignore_errors=True)
    if rc:
        return 1
    if reasons:
        print("INCONCLUSIVE property=%s reason=%s" % (pid, "; ".join(reasons)))
        return 2
    return 0
