"""Stage-boundary capture for gen_params / gen_coords (attached from outside)."""
import logging
from collections import Counter

from .. import attach

STAGES = {}          # name -> snapshot (last run)
EVENTS = []          # ordered list of (stage, 'enter'|'exit'|'raise')
_attached = False


def snapshot_molecule(mol):
    """canonical, JSON-able view of a vermouth molecule"""
    order = list(mol.sorted_nodes) if hasattr(mol, "sorted_nodes") else sorted(mol.nodes)
    pos = {n: i + 1 for i, n in enumerate(order)}
    atoms = []
    for n in order:
        d = mol.nodes[n]
        atoms.append({"idx": pos[n], "name": d.get("atomname"), "atype": d.get("atype"), "resid": d.get("resid"),
                      "resname": d.get("resname"), "cg": d.get("charge_group"), "charge": d.get("charge"),
                      "mass": d.get("mass")})
    inter = {}
    for sec, lst in mol.interactions.items():
        c = Counter()
        for it in lst:
            cond = ()
            for k in ("ifdef", "ifndef"):
                if k in it.meta:
                    cond = (k, it.meta[k])
            c[(tuple(pos[a] for a in it.atoms), tuple(str(p) for p in it.parameters), cond,
               it.meta.get("version", None))] += 1
        if c:
            inter[sec] = c
    edges = {frozenset((pos[a], pos[b])) for a, b in mol.edges if a != b}
    return {"atoms": atoms, "inter": inter, "edges": edges, "nrexcl": getattr(mol, "nrexcl", None)}


def attach_gen_params():
    global _attached
    if _attached:
        return
    _attached = True
    import polyply
    from polyply.src.map_to_molecule import MapToMolecule
    from polyply.src.apply_links import ApplyLinks
    from polyply.src.apply_modifications import ApplyModifications

    def stage(name):
        def make(orig):
            def wrapper(self, meta_molecule, *a, **k):
                attach.count("stage:" + name)
                EVENTS.append((name, "enter"))
                try:
                    out = orig(self, meta_molecule, *a, **k)
                except BaseException:
                    EVENTS.append((name, "raise"))
                    raise
                EVENTS.append((name, "exit"))
                try:
                    STAGES[name] = snapshot_molecule(out.molecule)
                    STAGES[name + ":meta"] = out
                except Exception as err:      # monitor must not change behaviour
                    STAGES[name] = {"error": repr(err)}
                return out
            return wrapper
        return make

    attach.wrap_method(MapToMolecule, "run_molecule", stage("map"))
    attach.wrap_method(ApplyLinks, "run_molecule", stage("links"))
    attach.wrap_method(ApplyModifications, "run_molecule", stage("mods"))


class LogCapture(logging.Handler):
    def __init__(self):
        super().__init__(level=logging.DEBUG)
        self.records = []

    def emit(self, record):
        try:
            msg = record.getMessage()
        except Exception:
            msg = str(record.msg)
        self.records.append((record.levelname, msg, getattr(record, "args", None), record))


def run_gen_params(**kwargs):
    """run the real gen_params with stage capture and log capture.
    returns dict(status, error, warnings, stages, events)"""
    from polyply import gen_params
    from vermouth.file_writer import DeferredFileWriter
    STAGES.clear()
    del EVENTS[:]
    handler = LogCapture()
    logger = logging.getLogger("polyply")
    old_level = logger.level
    logger.addHandler(handler)
    logger.setLevel(logging.DEBUG)
    res = {"status": "ok", "error": None}
    try:
        gen_params(**kwargs)
    except BaseException as err:   # noqa
        if isinstance(err, (KeyboardInterrupt,)) or type(err).__name__ == "CaseTimeout":
            raise
        res["status"] = "raised"
        res["error"] = "%s: %s" % (type(err).__name__, str(err)[:300])
        res["exc_type"] = type(err).__name__
        try:
            DeferredFileWriter().close()      # what process exit would do
        except Exception:
            pass
    finally:
        logger.removeHandler(handler)
        logger.setLevel(old_level)
    res["log"] = [(lv, msg) for lv, msg, _, _ in handler.records]
    res["missing"] = []
    for lv, msg, _, rec in handler.records:
        if lv == "WARNING" and msg.startswith("Missing a link between residue"):
            res["missing"].append(msg)
    res["stages"] = dict(STAGES)
    res["events"] = list(EVENTS)
    return res
