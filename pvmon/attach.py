"""Attach monitors to the real polyply code from outside (no repository edits).

``rebind_everywhere(original, wrapper)`` replaces *every* module attribute in
``polyply*`` that is the original object (handles ``from .x import f`` early
bindings).  ``wrap_method(cls, name, make)`` replaces a method on the class
object itself (seen by every importer).  Every wrapper counts its evaluations in
``CALLS`` so that a check can tell "held" from "monitor never reached".
"""
import functools
import sys

CALLS = {}
_UNDO = []


def count(name, n=1):
    CALLS[name] = CALLS.get(name, 0) + n


def import_all_polyply():
    import importlib
    import pkgutil
    import polyply
    import polyply.src
    for m in pkgutil.iter_modules(polyply.src.__path__):
        if m.name in ("logging",):
            pass
        importlib.import_module("polyply.src." + m.name)


def rebind_everywhere(original, wrapper, prefix="polyply"):
    n = 0
    for modname, mod in list(sys.modules.items()):
        if mod is None or not modname.startswith(prefix):
            continue
        for attr, val in list(vars(mod).items()):
            if val is original:
                setattr(mod, attr, wrapper)
                _UNDO.append((mod, attr, original))
                n += 1
    return n


def wrap_function(module, name, make):
    """make(original) -> wrapper; rebinds in every polyply module"""
    original = getattr(module, name)
    wrapper = functools.wraps(original)(make(original))
    wrapper.__pvmon_original__ = original
    n = rebind_everywhere(original, wrapper)
    if n == 0:
        raise RuntimeError("could not attach to %s.%s" % (module.__name__, name))
    return original


def wrap_method(cls, name, make):
    if name not in cls.__dict__:
        # inherited method: install the wrapper on this class only
        func = getattr(cls, name)
        wrapper = functools.wraps(func)(make(func))
        wrapper.__pvmon_original__ = func
        setattr(cls, name, wrapper)
        return func
    original = cls.__dict__[name]
    kind = None
    func = original
    if isinstance(original, (staticmethod, classmethod)):
        kind = type(original)
        func = original.__func__
    wrapper = functools.wraps(func)(make(func))
    wrapper.__pvmon_original__ = func
    setattr(cls, name, kind(wrapper) if kind else wrapper)
    _UNDO.append((cls, name, original))
    return func


def detach_all():
    while _UNDO:
        obj, attr, original = _UNDO.pop()
        setattr(obj, attr, original)
